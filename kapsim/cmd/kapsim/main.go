package main

import (
	"fmt"
	"os"
)

func main() {
	if len(os.Args) < 2 {
		fmt.Fprintln(os.Stderr, "usage: kapsim prepare|check|replay ...")
		os.Exit(2)
	}
	switch os.Args[1] {
	case "prepare":
		os.Exit(cmdPrepare(os.Args[2:]))
	case "check":
		os.Exit(cmdCheck(os.Args[2:]))
	case "replay":
		os.Exit(cmdReplay(os.Args[2:]))
	default:
		fmt.Fprintln(os.Stderr, "unknown command", os.Args[1])
		os.Exit(2)
	}
}
