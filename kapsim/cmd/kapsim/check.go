package main

import (
	"bufio"
	"bytes"
	"encoding/json"
	"flag"
	"fmt"
	"io"
	"os"
	"os/exec"
	"path/filepath"
	"sort"
	"strconv"
	"strings"
	"sync"
	"time"

	"kapsim/simgo"
)

// Budget per property and tier.
type budget struct {
	ffRuns, runs int64 // fault-free runs, faulty runs
	wallSec      int   // cap on the running phase
	chunk        int64
	selftest     int // seeds for the determinism self-test (thorough)
}

var budgets = map[string]map[string]budget{}

func bud(id string, q, t budget) { budgets[id] = map[string]budget{"quick": q, "thorough": t} }

func init() {
	def := func(id string) {
		// thorough: the run counts are upper bounds, the wall clock (13 min of running + self-test + build) is what ends the tier
		bud(id, budget{ffRuns: 400, runs: 1600, wallSec: 50, chunk: 50}, budget{ffRuns: 200000, runs: 1800000, wallSec: 780, chunk: 500, selftest: 40})
	}
	// crash sweeps run tens of worlds per case
	bud("C08", budget{ffRuns: 60, runs: 240, wallSec: 40, chunk: 5}, budget{ffRuns: 5000, runs: 45000, wallSec: 780, chunk: 25, selftest: 20})
	bud("C14", budget{ffRuns: 2000, runs: 2000, wallSec: 60, chunk: 50}, budget{ffRuns: 60000, runs: 240000, wallSec: 780, chunk: 100, selftest: 20})
	// five modes and, in the runtime mode, some forty parameterised node chains: more cases per tier
	bud("C05", budget{ffRuns: 1200, runs: 2800, wallSec: 60, chunk: 50}, budget{ffRuns: 200000, runs: 1800000, wallSec: 780, chunk: 500, selftest: 40})
	for _, id := range []string{"C01", "C02", "C03", "C06", "C07", "C09", "C10", "C11", "C12", "C15", "C16", "C17", "C18", "C19"} {
		def(id)
	}
}

// out is where evidence and replay files go: the verif directory, unless VERIF_OUT redirects them
// (used when the check is pointed at a deliberately broken tree, so that the committed evidence is not overwritten).
func (e *checkEnv) out() string {
	if d := os.Getenv("VERIF_OUT"); d != "" {
		os.MkdirAll(filepath.Join(d, "evidence"), 0755)
		os.MkdirAll(filepath.Join(d, "replays", "known"), 0755)
		os.MkdirAll(filepath.Join(d, "replays", "tmp"), 0755)
		return d
	}
	return e.verif
}

type line struct {
	I            int64                  `json:"i"`
	Seed         uint64                 `json:"seed"`
	OK           bool                   `json:"ok"`
	Class        string                 `json:"class"`
	Detail       string                 `json:"detail"`
	Shape        map[string]interface{} `json:"shape"`
	Inconclusive bool                   `json:"inconclusive"`
	Trivial      bool                   `json:"trivial"`
	FF           bool                   `json:"ff"`
	Worlds       int                    `json:"worlds"`
	Steps        int64                  `json:"steps"`
	Switches     int64                  `json:"switches"`
	VirtNs       int64                  `json:"virt_ns"`
	Trace        uint64                 `json:"trace"`
	Sig          uint64                 `json:"sig"`
	Scen         uint64                 `json:"scen"`
	MaxG         int                    `json:"maxg"`
	Counters     map[string]int64       `json:"counters"`
	Scenario     json.RawMessage        `json:"scenario"`
	Replay       string                 `json:"replay"`
	WallMs       int64                  `json:"wall_ms"`
	StoppedAt    *int64                 `json:"stopped_at"`
	Why          string                 `json:"why"`
	Known        bool                   `json:"known"`
	Minimise     string                 `json:"minimise"`
	Out          string                 `json:"out"`
	Tries        int                    `json:"tries"`
}

type finding struct {
	Property string                 `json:"property"`
	Class    string                 `json:"class"`
	Shape    map[string]interface{} `json:"shape"`
	Status   string                 `json:"status"` // "known" | "fixed"
	Commit   string                 `json:"commit,omitempty"`
	What     string                 `json:"what"`
}

func loadFindings(verif string) ([]finding, error) {
	b, err := os.ReadFile(filepath.Join(verif, "known_findings.json"))
	if os.IsNotExist(err) {
		return nil, nil
	}
	if err != nil {
		return nil, err
	}
	var fs struct {
		Findings []finding `json:"findings"`
	}
	if err := json.Unmarshal(b, &fs); err != nil {
		return nil, err
	}
	return fs.Findings, nil
}

func shapeMatches(pred, shape map[string]interface{}) bool {
	for k, want := range pred {
		got, ok := shape[k]
		if !ok {
			return false
		}
		// predicates: exact value, or {"min": n}
		if m, ok := want.(map[string]interface{}); ok {
			gv, isNum := got.(float64)
			if !isNum {
				return false
			}
			if mn, ok := m["min"].(float64); ok && gv < mn {
				return false
			}
			if mx, ok := m["max"].(float64); ok && gv > mx {
				return false
			}
			continue
		}
		if fmt.Sprint(got) != fmt.Sprint(want) {
			return false
		}
	}
	return true
}

type checkEnv struct {
	prop, tier  string
	seed        uint64
	jobs        int
	verif, repo string
	scratch     string
	worker      string
	faildir     string
	stats       simgo.Stats
	buildSec    float64
}

func (e *checkEnv) runWorker(args ...string) ([]line, string, error) {
	cmd := exec.Command(e.worker, args...)
	cmd.Env = append(os.Environ(), "KAPSIM_KNOWN="+filepath.Join(e.verif, "known_findings.json"), "GOMAXPROCS=1", "KAPSIM_DATA="+filepath.Join(e.scratch, "data", strconv.Itoa(int(time.Now().UnixNano()%1e9))+"-"+strconv.Itoa(os.Getpid())))
	var stderr bytes.Buffer
	cmd.Stderr = &stderr
	out, err := cmd.StdoutPipe()
	if err != nil {
		return nil, "", err
	}
	if err := cmd.Start(); err != nil {
		return nil, "", err
	}
	// hard wall-clock bound on any worker invocation: a stuck worker is a harness failure, never a hang of the check
	killer := time.AfterFunc(e.workerTimeout(args), func() { cmd.Process.Kill() })
	defer killer.Stop()
	var lines []line
	rd := bufio.NewReaderSize(out, 1<<20)
	for {
		b, rerr := rd.ReadBytes('\n')
		if len(bytes.TrimSpace(b)) > 0 {
			var l line
			if jerr := json.Unmarshal(b, &l); jerr != nil {
				io.Copy(io.Discard, rd)
				cmd.Wait()
				return lines, stderr.String(), fmt.Errorf("bad worker output %q: %v", truncate(string(b), 200), jerr)
			}
			lines = append(lines, l)
		}
		if rerr != nil {
			break
		}
	}
	err = cmd.Wait()
	return lines, stderr.String(), err
}

func truncate(s string, n int) string {
	if len(s) > n {
		return s[:n] + "..."
	}
	return s
}

type agg struct {
	evals, ff, trivial, inconclusive int64
	steps, switches, virt            int64
	worlds                           int64
	wallMs                           int64
	maxG                             int
	counters                         map[string]int64
	distinct                         map[[2]uint64]bool
	scens                            map[uint64]bool
	samples                          []json.RawMessage
	fails                            []line
	knownFails                       []line
	knownCount                       int64
	strategies                       map[string]int64
}

func newAgg() *agg {
	return &agg{counters: map[string]int64{}, distinct: map[[2]uint64]bool{}, scens: map[uint64]bool{}, strategies: map[string]int64{}}
}

func (a *agg) add(l line) {
	a.evals++
	if l.FF {
		a.ff++
	}
	if l.Trivial {
		a.trivial++
	}
	if l.Inconclusive {
		a.inconclusive++
	}
	a.steps += l.Steps
	a.switches += l.Switches
	a.virt += l.VirtNs
	a.worlds += int64(l.Worlds)
	a.wallMs += l.WallMs
	if l.MaxG > a.maxG {
		a.maxG = l.MaxG
	}
	for k, v := range l.Counters {
		a.counters[k] += v
	}
	if !l.Trivial {
		a.distinct[[2]uint64{l.Scen, l.Sig}] = true
	}
	a.scens[l.Scen] = true
	if len(l.Scenario) > 0 && string(l.Scenario) != "null" && len(a.samples) < 3 && l.OK {
		a.samples = append(a.samples, l.Scenario)
	}
	if !l.OK {
		if l.Known {
			a.knownCount++
			if l.Replay != "" {
				a.knownFails = append(a.knownFails, l)
			}
		} else {
			a.fails = append(a.fails, l)
		}
	}
}

func cmdCheck(args []string) int {
	fs := flag.NewFlagSet("check", flag.ExitOnError)
	repo := fs.String("repo", "/repo", "")
	verif := fs.String("verif", "/verif", "")
	keep := fs.Bool("keep", false, "keep the scratch dir")
	reuse := fs.String("reuse", "", "reuse an already prepared scratch dir (development only)")
	runsOverride := fs.Int64("runs", 0, "")
	wallOverride := fs.Int("wall", 0, "")
	fs.Parse(args)
	if fs.NArg() < 1 {
		fmt.Fprintln(os.Stderr, "usage: kapsim check <property> [quick|thorough]")
		return 2
	}
	e := &checkEnv{prop: fs.Arg(0), tier: "quick", verif: *verif, repo: *repo, jobs: 16}
	if fs.NArg() > 1 {
		e.tier = fs.Arg(1)
	}
	if t := os.Getenv("VERIF_TIER"); t == "quick" || t == "thorough" {
		e.tier = t
	}
	if r := os.Getenv("VERIF_REPO"); r != "" { // sensitivity runs against a patched scratch worktree
		e.repo = r
	}
	e.seed = 20260925
	if s := os.Getenv("VERIF_SEED"); s != "" {
		v, err := strconv.ParseUint(s, 10, 64)
		if err != nil {
			iv, err2 := strconv.ParseInt(s, 10, 64)
			if err2 != nil {
				fmt.Fprintln(os.Stderr, "bad VERIF_SEED")
				return 2
			}
			v = uint64(iv)
		}
		e.seed = v
	}
	if j := os.Getenv("VERIF_JOBS"); j != "" {
		if v, err := strconv.Atoi(j); err == nil && v > 0 {
			e.jobs = v
		}
	}
	b, ok := budgets[e.prop][e.tier]
	if !ok {
		fmt.Fprintf(os.Stderr, "no such property/tier: %s %s\n", e.prop, e.tier)
		return 2
	}
	if v, err := strconv.ParseInt(os.Getenv("VERIF_RUNS"), 10, 64); err == nil && v > 0 { // development aid
		*runsOverride = v
	}
	if v, err := strconv.Atoi(os.Getenv("VERIF_WALL")); err == nil && v > 0 {
		*wallOverride = v
	}
	if *runsOverride > 0 {
		b.runs = *runsOverride
		b.ffRuns = *runsOverride / 4
	}
	if *wallOverride > 0 {
		b.wallSec = *wallOverride
	}
	t0 := time.Now()
	fmt.Printf("kapsim: property=%s tier=%s VERIF_SEED=%d jobs=%d\n", e.prop, e.tier, e.seed, e.jobs)

	// 1. scratch copy, instrument, build
	if *reuse != "" {
		e.scratch = *reuse
		e.worker = filepath.Join(e.scratch, "worker.bin")
	} else {
		root := os.Getenv("VERIF_SCRATCH")
		if root == "" {
			root = "/var/tmp"
		}
		e.scratch = filepath.Join(root, fmt.Sprintf("kapsim.%s.%d", e.prop, os.Getpid()))
		os.RemoveAll(e.scratch)
		if !*keep {
			defer os.RemoveAll(e.scratch)
		}
		w, st, err := prepare(e.repo, e.verif, e.scratch, false)
		if err != nil {
			fmt.Fprintf(os.Stderr, "kapsim: BUILD FAILURE (exit 2, not a violation): %v\n", err)
			return 2
		}
		e.worker, e.stats = w, st
	}
	e.buildSec = time.Since(t0).Seconds()
	e.faildir = filepath.Join(e.scratch, "fail")
	os.MkdirAll(e.faildir, 0755)
	os.MkdirAll(filepath.Join(e.scratch, "data"), 0755)
	fmt.Printf("kapsim: instrumented %d files (%d go, %d chan ops, %d selects, %d map ranges) and built the worker in %.1fs\n",
		e.stats.Files, e.stats.Go, e.stats.Send+e.stats.Recv+e.stats.RangeChan+e.stats.Close, e.stats.Select, e.stats.RangeMap, e.buildSec)

	// property metadata
	meta := map[string]interface{}{}
	{
		lines, _, err := e.runWorkerRaw("list")
		if err != nil {
			fmt.Fprintln(os.Stderr, "kapsim: worker list failed:", err)
			return 2
		}
		for _, l := range lines {
			var m map[string]interface{}
			if json.Unmarshal([]byte(l), &m) == nil && m["id"] == e.prop {
				meta = m
			}
		}
		if meta["id"] == nil {
			fmt.Fprintf(os.Stderr, "kapsim: property %s is not registered in the worker\n", e.prop)
			return 2
		}
	}

	// 2. run: fault-free first, then faulty, on e.jobs single-threaded workers
	a := newAgg()
	deadline := time.Now().Add(time.Duration(b.wallSec) * time.Second)
	type job struct {
		ff   bool
		from int64
		n    int64
	}
	var ffJobs, fJobs, jobsList []job
	for from := int64(0); from < b.ffRuns; from += b.chunk {
		n := b.chunk
		if from+n > b.ffRuns {
			n = b.ffRuns - from
		}
		ffJobs = append(ffJobs, job{true, from, n})
	}
	for from := int64(0); from < b.runs; from += b.chunk {
		n := b.chunk
		if from+n > b.runs {
			n = b.runs - from
		}
		fJobs = append(fJobs, job{false, from, n})
	}
	// The fault-free configuration goes first (a relaxation made for faults must not hide an ordinary bug): the
	// first fifth of its chunks alone, the rest interleaved with the faulty chunks in proportion, so that a wall
	// clock cap cuts both configurations alike instead of starving the faulty one.
	head := (len(ffJobs) + 4) / 5
	jobsList = append(jobsList, ffJobs[:head]...)
	ffJobs = ffJobs[head:]
	for i, j := 0, 0; i < len(ffJobs) || j < len(fJobs); {
		if j >= len(fJobs) || (i < len(ffJobs) && i*len(fJobs) <= j*len(ffJobs)) {
			jobsList = append(jobsList, ffJobs[i])
			i++
		} else {
			jobsList = append(jobsList, fJobs[j])
			j++
		}
	}
	var mu sync.Mutex
	var harnessErr error
	var fatals []fatalCase
	next := 0
	skipped := int64(0)
	var wg sync.WaitGroup
	for w := 0; w < e.jobs; w++ {
		wg.Add(1)
		go func() {
			defer wg.Done()
			for {
				mu.Lock()
				if next >= len(jobsList) || harnessErr != nil || len(a.fails) >= 6 || len(fatals) >= 3 {
					mu.Unlock()
					return
				}
				j := jobsList[next]
				next++
				mu.Unlock()
				from, n := j.from, j.n
				for n > 0 {
					if time.Now().After(deadline) {
						mu.Lock()
						skipped += n
						mu.Unlock()
						break
					}
					args := []string{"run", "-prop", e.prop, "-tier", e.tier, "-seed", strconv.FormatUint(e.seed, 10),
						"-from", strconv.FormatInt(from, 10), "-n", strconv.FormatInt(n, 10), "-outdir", e.faildir,
						"-deadline", strconv.FormatInt(deadline.Unix(), 10), "-known", filepath.Join(e.verif, "known_findings.json")}
					if j.ff {
						args = append(args, "-faultfree")
					}
					if from == 0 {
						args = append(args, "-samples", "2")
					}
					lines, stderr, err := e.runWorker(args...)
					mu.Lock()
					stopped := from + n
					why := ""
					for _, l := range lines {
						if l.StoppedAt != nil {
							stopped = *l.StoppedAt
							why = l.Why
							continue
						}
						a.add(l)
					}
					if err != nil && e.prop == "C05" && strings.Contains(stderr, "fatal error:") {
						// The code under test killed the process outright (a fatal error such as a stack overflow cannot be
						// recovered): for C05, "no script ... can crash the daemon", that is the violation itself. The case
						// is the one after the last that reported back; the chunk goes on behind it.
						idx := from
						for _, l := range lines {
							if l.StoppedAt == nil && l.I >= idx {
								idx = l.I + 1
							}
						}
						fatals = append(fatals, fatalCase{idx: idx, ff: j.ff, stderr: stderr})
						stopped = idx + 1
						err = nil
					}
					if err != nil {
						harnessErr = fmt.Errorf("worker failed (%v) on %v: %s", err, args, truncate(stderr, 4000))
					}
					mu.Unlock()
					if err != nil {
						return
					}
					done := stopped - from
					if why == "maxfail" || why == "deadline" {
						mu.Lock()
						skipped += n - done
						mu.Unlock()
						break
					}
					if done <= 0 {
						break
					}
					from += done
					n -= done
				}
			}
		}()
	}
	wg.Wait()
	runSec := time.Since(t0).Seconds() - e.buildSec
	if harnessErr != nil {
		fmt.Fprintf(os.Stderr, "kapsim: HARNESS FAILURE (exit 2, not a violation): %v\n", harnessErr)
		return 2
	}

	// 3. failures: confirm in a fresh process, minimise, confirm again
	findings, err := loadFindings(e.verif)
	if err != nil {
		fmt.Fprintln(os.Stderr, "kapsim: known_findings.json:", err)
		return 2
	}
	sort.Slice(a.fails, func(i, j int) bool {
		if a.fails[i].FF != a.fails[j].FF {
			return a.fails[i].FF
		}
		return a.fails[i].I < a.fails[j].I
	})
	violations := 0
	fatalExit := 0
	for _, fc := range fatals {
		// confirm in a fresh process: the single case must kill it again
		args := []string{"run", "-prop", e.prop, "-tier", e.tier, "-seed", strconv.FormatUint(e.seed, 10), "-from", strconv.FormatInt(fc.idx, 10), "-n", "1", "-outdir", e.faildir}
		if fc.ff {
			args = append(args, "-faultfree")
		}
		_, stderr, err := e.runWorker(args...)
		if err == nil || !strings.Contains(stderr, "fatal error:") {
			fmt.Fprintf(os.Stderr, "kapsim: HARNESS FAILURE (non-reproducible, exit 2): a worker died with a fatal error, case %d alone does not: %s\n", fc.idx, truncate(fc.stderr, 1500))
			return 2
		}
		rf := map[string]interface{}{"property": e.prop, "tier": e.tier, "fault_free": fc.ff, "base_seed": e.seed, "run_index": fc.idx, "process_fatal": true,
			"class": "process-killed", "detail": "the code under test killed the process: " + truncate(firstLines(stderr, 6), 1200)}
		b, _ := json.MarshalIndent(rf, "", " ")
		dst := filepath.Join(e.out(), "replays", fmt.Sprintf("%s-fatal-%d-%d.json", e.prop, e.seed, fc.idx))
		os.MkdirAll(filepath.Dir(dst), 0755)
		if err := os.WriteFile(dst, b, 0644); err != nil {
			fmt.Fprintln(os.Stderr, "kapsim: cannot store replay file:", err)
			return 2
		}
		fmt.Printf("VIOLATION property=%s replay=%s\n", e.prop, dst)
		fmt.Printf("  class=process-killed base_seed=%d run_index=%d fault_free=%v\n  %s\n", e.seed, fc.idx, fc.ff, truncate(firstLines(stderr, 6), 1200))
		fatalExit = 1
	}
	knownHit := map[string]int{}
	inconclusive := 0
	reported := map[string]bool{}
	exit := fatalExit
	// one representative per known finding is confirmed and kept as a replay file too
	seenKnown := map[string]bool{}
	var todo []line
	for _, f := range a.knownFails {
		k := f.Class + "|" + fmt.Sprint(f.Shape)
		if !seenKnown[k] {
			seenKnown[k] = true
			todo = append(todo, f)
		}
	}
	todo = append(todo, a.fails...)
	// a defect that shows in many shapes is reported with its first few; confirming and minimising every one of
	// hundreds of failing runs would take hours and add nothing
	const maxViolations = 8
	unconfirmed := 0
	minStart := time.Now()
	minTotal := 60
	if e.tier == "thorough" {
		minTotal = 300
	}
	for _, f := range todo {
		if f.Inconclusive {
			inconclusive++
			fmt.Fprintf(os.Stderr, "kapsim: inconclusive run seed=%d class=%s: %s\n", f.Seed, f.Class, truncate(f.Detail, 400))
			continue
		}
		key := f.Class + "|" + fmt.Sprint(f.Shape)
		if f.Known {
			// one line per known-findings entry, not per shape variant
			for i := range findings {
				k := &findings[i]
				if k.Status == "known" && k.Property == e.prop && k.Class == f.Class && shapeMatches(k.Shape, f.Shape) {
					key = "known|" + k.What
					break
				}
			}
		}
		if reported[key] {
			continue
		}
		if !f.Known && violations >= maxViolations {
			unconfirmed++
			continue
		}
		// confirm
		lines, stderr, err := e.runWorker("replay", "-file", f.Replay)
		if err != nil || len(lines) != 1 {
			fmt.Fprintf(os.Stderr, "kapsim: HARNESS FAILURE: replay of %s failed: %v %s\n", f.Replay, err, truncate(stderr, 2000))
			return 2
		}
		r := lines[0]
		if r.OK || r.Class != f.Class || r.Trace != f.Trace {
			fmt.Fprintf(os.Stderr, "kapsim: HARNESS FAILURE (non-reproducible, exit 2): seed=%d first run class=%q trace=%d, fresh-process replay ok=%v class=%q trace=%d\n",
				f.Seed, f.Class, f.Trace, r.OK, r.Class, r.Trace)
			keepCopy(f.Replay, filepath.Join(e.out(), "replays", "tmp"))
			return 2
		}
		reported[key] = true
		// known finding?
		var match *finding
		for i := range findings {
			k := &findings[i]
			if k.Status == "known" && k.Property == e.prop && k.Class == f.Class && shapeMatches(k.Shape, f.Shape) {
				match = k
			}
		}
		// minimise (bounded), confirm the minimised file in a fresh process
		final := f.Replay
		// minimisation is bounded per failure and per check
		mb := 25
		if e.tier == "thorough" {
			mb = 90
		}
		if match != nil {
			mb = 5
		}
		if left := minTotal - int(time.Since(minStart).Seconds()); mb > left {
			mb = left
		}
		if mb < 2 {
			mb = 2
		}
		minBudget := strconv.Itoa(mb)
		mlines, _, merr := e.runWorker("minimise", "-file", f.Replay, "-budget", minBudget)
		if merr == nil && len(mlines) == 1 && mlines[0].Minimise == "ok" {
			clines, _, cerr := e.runWorker("replay", "-file", mlines[0].Out)
			if cerr == nil && len(clines) == 1 && !clines[0].OK && clines[0].Class == f.Class {
				final = mlines[0].Out
			}
		}
		dst := filepath.Join(e.out(), "replays", fmt.Sprintf("%s-%d.json", e.prop, f.Seed))
		if match != nil {
			dst = filepath.Join(e.out(), "replays", "known", fmt.Sprintf("%s-%s.json", e.prop, slug(match.Class+"-"+fmt.Sprint(match.Shape))))
		}
		os.MkdirAll(filepath.Dir(dst), 0755)
		if err := copyFile(final, dst); err != nil {
			fmt.Fprintln(os.Stderr, "kapsim: cannot store replay file:", err)
			return 2
		}
		if match != nil {
			knownHit[match.What]++
			fmt.Printf("KNOWN-FINDING: property=%s %s (class=%s replay=%s)\n", e.prop, match.What, f.Class, dst)
			continue
		}
		violations++
		exit = 1
		fmt.Printf("VIOLATION property=%s replay=%s\n", e.prop, dst)
		fmt.Printf("  class=%s seed=%d fault_free=%v\n  %s\n", f.Class, f.Seed, f.FF, truncate(f.Detail, 3000))
	}
	if unconfirmed > 0 {
		fmt.Printf("kapsim: %d more failing runs (other classes or shapes) were not confirmed and minimised; their replay files are in the scratch directory of this run only\n", unconfirmed)
	}
	// known findings listed but not hit are still announced (they are findings of the tree, not of this run)
	for _, k := range findings {
		if k.Status == "known" && k.Property == e.prop && knownHit[k.What] == 0 {
			fmt.Printf("KNOWN-FINDING: property=%s %s (not re-encountered in this run)\n", e.prop, k.What)
		}
	}

	// 4. determinism self-test in the thorough tier
	selfOK := true
	selfN := 0
	if b.selftest > 0 && exit == 0 {
		selfN, selfOK = e.selftest(b.selftest)
		if !selfOK {
			fmt.Fprintln(os.Stderr, "kapsim: HARNESS FAILURE: determinism self-test failed (exit 2)")
			return 2
		}
	}

	// 5. evidence
	wall := time.Since(t0).Seconds()
	ev := map[string]interface{}{
		"property_id": e.prop,
		"tier":        e.tier,
		"seed":        e.seed,
		"level":       "exploration",
		"wall_s":      wall,
		"violations":  violations + len(fatals),
		"assumptions": meta["assumptions"],
	}
	faults := map[string]int64{}
	probes := map[string]int64{}
	obs := map[string]int64{}
	for k, v := range a.counters {
		switch {
		case strings.HasPrefix(k, "fault."):
			faults[strings.TrimPrefix(k, "fault.")] = v
		case strings.HasPrefix(k, "buggify."):
			faults[k] = v
		case strings.HasPrefix(k, "probe."):
			probes[strings.TrimPrefix(k, "probe.")] = v
		default:
			obs[k] = v
		}
	}
	samples := []interface{}{}
	for _, s := range a.samples {
		var v interface{}
		if json.Unmarshal(s, &v) == nil {
			samples = append(samples, v)
		}
	}
	if len(samples) == 0 {
		samples = append(samples, "no passing sample captured")
	}
	rph := 0.0
	if runSec > 0 {
		rph = float64(a.evals) / runSec * 3600
	}
	cov := map[string]interface{}{
		"evaluations":               a.evals,
		"distinct_nontrivial":       len(a.distinct),
		"rule":                      meta["rule"],
		"samples":                   samples,
		"fault_free_runs":           a.ff,
		"faulty_runs":               a.evals - a.ff,
		"trivial_runs":              a.trivial,
		"inconclusive_runs":         inconclusive,
		"runs_not_started_wall_cap": skipped,
		"distinct_scenarios":        len(a.scens),
		"distinct_measure":          "distinct (generator-tape hash, interleaving signature) pairs among non-trivial runs; the interleaving signature hashes the sequence of (goroutine creation site, operation kind) at every context switch",
		"worlds":                    a.worlds,
		"steps":                     a.steps,
		"context_switches":          a.switches,
		"virtual_time_s":            float64(a.virt) / 1e9,
		"runs_per_hour":             rph,
		"seeds_per_hour":            rph,
		"max_goroutines_in_a_world": a.maxG,
		"faults_fired":              faults,
		"probes":                    probes,
		"observations":              obs,
		"instrumented_sites":        map[string]int{"files": e.stats.Files, "go": e.stats.Go, "send": e.stats.Send, "recv": e.stats.Recv, "select": e.stats.Select, "range_chan": e.stats.RangeChan, "range_map": e.stats.RangeMap, "close": e.stats.Close, "imports_swapped": e.stats.Imports, "knobs": e.stats.Knobs},
		"components":                map[string]interface{}{"real": meta["real"], "stub": meta["stub"]},
		"known_findings_hit":        knownHit,
		"determinism_selftest":      map[string]interface{}{"seeds": selfN, "processes_per_seed": 3, "gomaxprocs": []int{1, 4, 16}, "ok": selfOK},
		"build_s":                   e.buildSec,
		"run_s":                     runSec,
	}
	ev["coverage"] = cov
	evb, _ := json.MarshalIndent(ev, "", " ")
	evPath := filepath.Join(e.out(), "evidence", e.prop+".json")
	os.MkdirAll(filepath.Dir(evPath), 0755)
	if err := os.WriteFile(evPath, evb, 0644); err != nil {
		fmt.Fprintln(os.Stderr, "kapsim: cannot write evidence:", err)
		return 2
	}
	fmt.Printf("kapsim: %s %s: %d runs (%d fault-free), %d distinct non-trivial, %d steps, %.0f runs/h, %d violations, %d known findings hit, wall %.1fs\n",
		e.prop, e.tier, a.evals, a.ff, len(a.distinct), a.steps, rph, violations, len(knownHit), wall)
	if a.evals == 0 {
		fmt.Fprintln(os.Stderr, "kapsim: HARNESS FAILURE: nothing was executed")
		return 2
	}
	return exit
}

func (e *checkEnv) runWorkerRaw(args ...string) ([]string, string, error) {
	cmd := exec.Command(e.worker, args...)
	var stderr bytes.Buffer
	cmd.Stderr = &stderr
	out, err := cmd.Output()
	var lines []string
	for _, l := range strings.Split(string(out), "\n") {
		if strings.TrimSpace(l) != "" {
			lines = append(lines, l)
		}
	}
	return lines, stderr.String(), err
}

// selftest runs n seeds three times each in fresh processes with different GOMAXPROCS and compares traces.
func (e *checkEnv) selftest(n int) (int, bool) {
	procs := []string{"1", "4", "16"}
	type res struct {
		seed  int
		trace [3]uint64
		class [3]string
		err   error
	}
	results := make([]res, n)
	var wg sync.WaitGroup
	sem := make(chan struct{}, e.jobs)
	for i := 0; i < n; i++ {
		for p := 0; p < 3; p++ {
			wg.Add(1)
			sem <- struct{}{}
			go func(i, p int) {
				defer wg.Done()
				defer func() { <-sem }()
				cmd := exec.Command(e.worker, "run", "-prop", e.prop, "-tier", e.tier, "-seed", strconv.FormatUint(e.seed^0x5E1F, 10), "-from", strconv.Itoa(i), "-n", "1", "-outdir", e.faildir)
				cmd.Env = append(os.Environ(), "KAPSIM_KNOWN="+filepath.Join(e.verif, "known_findings.json"), "KAPSIM_PROCS="+procs[p], "KAPSIM_DATA="+filepath.Join(e.scratch, "data", fmt.Sprintf("st-%d-%d", i, p)))
				out, err := cmd.Output()
				if err != nil {
					results[i].err = err
					return
				}
				var l line
				first := strings.SplitN(string(out), "\n", 2)[0]
				if err := json.Unmarshal([]byte(first), &l); err != nil {
					results[i].err = err
					return
				}
				results[i].trace[p] = l.Trace
				results[i].class[p] = l.Class
			}(i, p)
		}
	}
	wg.Wait()
	ok := true
	for i, r := range results {
		if r.err != nil {
			fmt.Fprintf(os.Stderr, "selftest: seed #%d: %v\n", i, r.err)
			ok = false
			continue
		}
		if r.trace[0] != r.trace[1] || r.trace[1] != r.trace[2] || r.class[0] != r.class[1] || r.class[1] != r.class[2] {
			fmt.Fprintf(os.Stderr, "selftest: seed #%d diverged: traces %v classes %v\n", i, r.trace, r.class)
			ok = false
		}
	}
	return n, ok
}

func copyFile(src, dst string) error {
	b, err := os.ReadFile(src)
	if err != nil {
		return err
	}
	return os.WriteFile(dst, b, 0644)
}

func keepCopy(src, dir string) {
	os.MkdirAll(dir, 0755)
	copyFile(src, filepath.Join(dir, filepath.Base(src)))
}

// cmdReplay re-executes a replay file against the current tree; exits 1 if the violation reproduces.
type fatalCase struct {
	idx    int64
	ff     bool
	stderr string
}

func firstLines(s string, n int) string {
	ls := strings.Split(s, "\n")
	if len(ls) > n {
		ls = ls[:n]
	}
	return strings.Join(ls, "\n")
}

func cmdReplay(args []string) int {
	fs := flag.NewFlagSet("replay", flag.ExitOnError)
	repo := fs.String("repo", "/repo", "")
	verif := fs.String("verif", "/verif", "")
	reuse := fs.String("reuse", "", "")
	fs.Parse(args)
	if fs.NArg() < 1 {
		fmt.Fprintln(os.Stderr, "usage: kapsim replay <file>")
		return 2
	}
	file := fs.Arg(0)
	e := &checkEnv{verif: *verif, repo: *repo}
	if *reuse != "" {
		e.scratch = *reuse
		e.worker = filepath.Join(e.scratch, "worker.bin")
	} else {
		root := os.Getenv("VERIF_SCRATCH")
		if root == "" {
			root = "/var/tmp"
		}
		e.scratch = filepath.Join(root, fmt.Sprintf("kapsim.replay.%d", os.Getpid()))
		os.RemoveAll(e.scratch)
		defer os.RemoveAll(e.scratch)
		w, _, err := prepare(e.repo, e.verif, e.scratch, false)
		if err != nil {
			fmt.Fprintf(os.Stderr, "kapsim: BUILD FAILURE: %v\n", err)
			return 2
		}
		e.worker = w
	}
	os.MkdirAll(filepath.Join(e.scratch, "data"), 0755)
	var rf struct {
		Property string `json:"property"`
		Class    string `json:"class"`
		Trace    uint64 `json:"trace_hash"`
		Fatal    bool   `json:"process_fatal"`
		Tier     string `json:"tier"`
		FF       bool   `json:"fault_free"`
		Seed     uint64 `json:"base_seed"`
		Index    int64  `json:"run_index"`
	}
	b, err := os.ReadFile(file)
	if err != nil || json.Unmarshal(b, &rf) != nil {
		fmt.Fprintln(os.Stderr, "kapsim: cannot read replay file")
		return 2
	}
	if rf.Fatal {
		// a case that killed the process: it is regenerated from (seed, index) and must kill a fresh process again
		args := []string{"run", "-prop", rf.Property, "-tier", rf.Tier, "-seed", strconv.FormatUint(rf.Seed, 10), "-from", strconv.FormatInt(rf.Index, 10), "-n", "1", "-outdir", filepath.Join(e.scratch, "data")}
		if rf.FF {
			args = append(args, "-faultfree")
		}
		_, stderr, err := e.runWorker(args...)
		if err != nil && strings.Contains(stderr, "fatal error:") {
			fmt.Printf("VIOLATION property=%s replay=%s\n  class=process-killed (reproduced)\n  %s\n", rf.Property, file, truncate(firstLines(stderr, 6), 1200))
			return 1
		}
		if err != nil {
			fmt.Fprintf(os.Stderr, "kapsim: replay failed: %v %s\n", err, truncate(stderr, 1500))
			return 2
		}
		fmt.Printf("replay: property=%s holds on this tree for the recorded case (recorded class=%s)\n", rf.Property, rf.Class)
		return 0
	}
	lines, stderr, err := e.runWorker("replay", "-file", file)
	if err != nil || len(lines) != 1 {
		fmt.Fprintf(os.Stderr, "kapsim: replay failed: %v %s\n", err, stderr)
		return 2
	}
	l := lines[0]
	if l.OK {
		fmt.Printf("replay: property=%s holds on this tree for the recorded case (recorded class=%s)\n", rf.Property, rf.Class)
		return 0
	}
	same := "same execution (trace hash equal)"
	if l.Trace != rf.Trace {
		same = "different trace hash (tree changed since recording)"
	}
	fmt.Printf("VIOLATION property=%s replay=%s\n  class=%s %s\n  %s\n", rf.Property, file, l.Class, same, truncate(l.Detail, 3000))
	return 1
}

func slug(s string) string {
	var b strings.Builder
	for _, r := range s {
		switch {
		case r >= 'a' && r <= 'z', r >= 'A' && r <= 'Z', r >= '0' && r <= '9':
			b.WriteRune(r)
		default:
			b.WriteByte('_')
		}
	}
	out := b.String()
	if len(out) > 80 {
		out = out[:80]
	}
	return out
}

func (e *checkEnv) workerTimeout(args []string) time.Duration {
	if len(args) > 0 && args[0] == "run" {
		if e.tier == "thorough" {
			return 40 * time.Minute
		}
		return 6 * time.Minute
	}
	return 4 * time.Minute
}
