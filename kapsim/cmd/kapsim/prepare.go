package main

import (
	"flag"
	"fmt"
	"os"
	"os/exec"
	"path/filepath"
	"time"

	"kapsim/simgo"
)

func toolEnv() (string, []string) {
	goBin := os.Getenv("GO")
	if goBin == "" {
		goBin = "go"
	}
	return goBin, os.Environ()
}

// prepare instruments /repo into dir and builds the worker. Returns the worker path.
func prepare(repo, verif, dir string, verbose bool) (string, simgo.Stats, error) {
	goBin, env := toolEnv()
	logf := func(f string, a ...interface{}) {
		if verbose {
			fmt.Fprintf(os.Stderr, f+"\n", a...)
		}
	}
	t0 := time.Now()
	st, err := simgo.Prepare(repo, filepath.Join(verif, "kapsim", "overlay"), dir, goBin, env, logf)
	if err != nil {
		return "", st, err
	}
	logf("simgo: instrumented in %v: %+v", time.Since(t0), st)
	t0 = time.Now()
	worker := filepath.Join(dir, "worker.bin")
	cmd := exec.Command(goBin, "build", "-trimpath", "-o", worker, "./zz_sim/cmd/worker") // -trimpath: the build cache is shared between scratch directories
	cmd.Dir = dir
	cmd.Env = env
	out, err := cmd.CombinedOutput()
	if err != nil {
		return "", st, fmt.Errorf("build of instrumented worker failed: %v\n%s", err, out)
	}
	logf("worker built in %v", time.Since(t0))
	return worker, st, nil
}

func cmdPrepare(args []string) int {
	fs := flag.NewFlagSet("prepare", flag.ExitOnError)
	repo := fs.String("repo", "/repo", "")
	verif := fs.String("verif", "/verif", "")
	dir := fs.String("dir", "", "scratch dir")
	fs.Parse(args)
	if *dir == "" {
		fmt.Fprintln(os.Stderr, "need -dir")
		return 2
	}
	w, st, err := prepare(*repo, *verif, *dir, true)
	if err != nil {
		fmt.Fprintln(os.Stderr, "prepare:", err)
		return 2
	}
	fmt.Printf("worker=%s\nstats=%+v\n", w, st)
	return 0
}
