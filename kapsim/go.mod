module kapsim

go 1.25

require (
	golang.org/x/mod v0.29.0
	golang.org/x/sync v0.18.0
	golang.org/x/tools v0.38.0
)
