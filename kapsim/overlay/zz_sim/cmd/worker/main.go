// Command worker executes simulated cases of one property. It is built from the instrumented
// scratch copy of /repo by `kapsim`; one OS process runs one world at a time (GOMAXPROCS=1).
package main

import (
	"encoding/json"
	"flag"
	"fmt"
	"os"
	"runtime"
	"runtime/debug"
	"strconv"
	"strings"
	"time"

	"github.com/influxdata/kapacitor/zz_sim/gen"
	"github.com/influxdata/kapacitor/zz_sim/harness"
	"github.com/influxdata/kapacitor/zz_sim/props"
)

// ReplayFile is the on-disk form of one case: everything needed to re-execute it exactly.
type ReplayFile struct {
	Property   string      `json:"property"`
	Tier       string      `json:"tier"`
	FaultFree  bool        `json:"fault_free"`
	BaseSeed   uint64      `json:"base_seed"`
	RunIndex   int64       `json:"run_index"`
	RunSeed    uint64      `json:"run_seed"`
	GenTape    []uint32    `json:"gen_tape"`
	WorldTapes [][]uint32  `json:"world_tapes"`
	Class      string      `json:"class"`
	Detail     string      `json:"detail"`
	Shape      interface{} `json:"shape,omitempty"`
	Trace      uint64      `json:"trace_hash"`
	Scenario   interface{} `json:"scenario,omitempty"`
	Minimised  bool        `json:"minimised"`
	Note       string      `json:"note,omitempty"`
}

// Line is one result line on stdout.
type Line struct {
	I            int64            `json:"i"`
	Seed         uint64           `json:"seed"`
	OK           bool             `json:"ok"`
	Class        string           `json:"class,omitempty"`
	Detail       string           `json:"detail,omitempty"`
	Shape        interface{}      `json:"shape,omitempty"`
	Inconclusive bool             `json:"inconclusive,omitempty"`
	Trivial      bool             `json:"trivial,omitempty"`
	FaultFree    bool             `json:"ff,omitempty"`
	Worlds       int              `json:"worlds"`
	Steps        int64            `json:"steps"`
	Switches     int64            `json:"switches"`
	VirtNs       int64            `json:"virt_ns"`
	Trace        uint64           `json:"trace"`
	Sig          uint64           `json:"sig"`
	ScenHash     uint64           `json:"scen"`
	MaxG         int              `json:"maxg"`
	Counters     map[string]int64 `json:"counters,omitempty"`
	Scenario     interface{}      `json:"scenario,omitempty"`
	Replay       string           `json:"replay,omitempty"`
	WallMs       int64            `json:"wall_ms"`
	Overrun      bool             `json:"overrun,omitempty"`
	Known        bool             `json:"known,omitempty"`
}

type knownFinding struct {
	Property string                 `json:"property"`
	Class    string                 `json:"class"`
	Shape    map[string]interface{} `json:"shape"`
	Status   string                 `json:"status"`
}

func loadKnown(path, prop string) []knownFinding {
	if path == "" {
		return nil
	}
	b, err := os.ReadFile(path)
	if err != nil {
		return nil
	}
	var f struct {
		Findings []knownFinding `json:"findings"`
	}
	if json.Unmarshal(b, &f) != nil {
		fmt.Fprintln(os.Stderr, "worker: bad known findings file")
		os.Exit(2)
	}
	var out []knownFinding
	for _, k := range f.Findings {
		if k.Property == prop && k.Status == "known" {
			out = append(out, k)
		}
	}
	return out
}

func matchKnown(known []knownFinding, v props.Verdict) int {
	for i, k := range known {
		if k.Class != v.Class {
			continue
		}
		ok := true
		for key, want := range k.Shape {
			got, has := v.Shape[key]
			if !has {
				ok = false
				break
			}
			if m, isMap := want.(map[string]interface{}); isMap {
				gv, isNum := toFloat(got)
				if !isNum {
					ok = false
					break
				}
				if mn, has := m["min"].(float64); has && gv < mn {
					ok = false
				}
				if mx, has := m["max"].(float64); has && gv > mx {
					ok = false
				}
				continue
			}
			if fmt.Sprint(got) != fmt.Sprint(want) {
				ok = false
				break
			}
		}
		if ok {
			return i
		}
	}
	return -1
}

func toFloat(v interface{}) (float64, bool) {
	switch x := v.(type) {
	case int:
		return float64(x), true
	case int64:
		return float64(x), true
	case float64:
		return x, true
	}
	return 0, false
}

func splitmix(x uint64) uint64 {
	x += 0x9E3779B97F4A7C15
	z := x
	z = (z ^ (z >> 30)) * 0xBF58476D1CE4E5B9
	z = (z ^ (z >> 27)) * 0x94D049BB133111EB
	return z ^ (z >> 31)
}

func hashTape(t []uint32) uint64 {
	h := uint64(1469598103934665603)
	for _, v := range t {
		h ^= uint64(v)
		h *= 1099511628211
	}
	return h
}

// knownFor returns the recorded known findings of a property (file from -known or $KAPSIM_KNOWN).
var knownPath = os.Getenv("KAPSIM_KNOWN")
var knownCache = map[string][]knownFinding{}

func knownFor(prop string) []knownFinding {
	if k, ok := knownCache[prop]; ok {
		return k
	}
	k := loadKnown(knownPath, prop)
	knownCache[prop] = k
	return k
}

func execute(p *props.Prop, tier string, ff bool, g *gen.G, tapes [][]uint32) (*props.Ctx, props.Verdict) {
	c := props.NewCtx(tier, ff, g, tapes)
	if known := knownFor(p.ID); len(known) > 0 {
		c.Known = func(class string, shape map[string]interface{}) bool {
			return matchKnown(known, props.Verdict{Class: class, Shape: shape}) >= 0
		}
	}
	v := p.Run(c)
	if v.Class == "" && !v.OK {
		v.OK = true
	}
	return c, v
}

func lineOf(i int64, seed uint64, ff bool, c *props.Ctx, v props.Verdict, wall time.Duration) Line {
	var sig uint64 = 1469598103934665603
	for _, s := range c.Sigs {
		sig = (sig ^ s) * 1099511628211
	}
	return Line{I: i, Seed: seed, OK: v.OK, Class: v.Class, Detail: v.Detail, Shape: v.Shape, Inconclusive: v.Inconclusive, Trivial: c.Trivial,
		FaultFree: ff, Worlds: c.Worlds, Steps: c.Steps, Switches: c.Switches, VirtNs: c.VirtualNs, Trace: c.Trace, Sig: sig,
		ScenHash: hashTape(c.G.Tape()), MaxG: c.MaxG, Counters: c.Counters, WallMs: wall.Milliseconds(), Overrun: c.Overrun || c.G.Overrun}
}

func emit(l Line) {
	b, err := json.Marshal(l)
	if err != nil {
		fmt.Fprintln(os.Stderr, "worker: marshal:", err)
		os.Exit(2)
	}
	os.Stdout.Write(append(b, '\n'))
}

func main() {
	runtime.GOMAXPROCS(1)
	if p := os.Getenv("KAPSIM_PROCS"); p != "" { // determinism self-test only
		if n, err := strconv.Atoi(p); err == nil && n > 0 {
			runtime.GOMAXPROCS(n)
		}
	}
	debug.SetGCPercent(200)
	if len(os.Args) < 2 {
		fmt.Fprintln(os.Stderr, "usage: worker run|replay|minimise|list")
		os.Exit(2)
	}
	defer os.RemoveAll(harness.ScratchRoot())
	switch os.Args[1] {
	case "run":
		cmdRun(os.Args[2:])
	case "replay":
		cmdReplay(os.Args[2:])
	case "minimise":
		cmdMinimise(os.Args[2:])
	case "list":
		for id, p := range props.Registry {
			b, _ := json.Marshal(map[string]interface{}{"id": id, "rule": p.Rule, "real": p.Real, "stub": p.Stub, "assumptions": p.Assumptions})
			fmt.Println(string(b))
		}
	default:
		fmt.Fprintln(os.Stderr, "unknown command")
		os.Exit(2)
	}
	os.RemoveAll(harness.ScratchRoot())
}

func getProp(id string) *props.Prop {
	p := props.Registry[id]
	if p == nil {
		fmt.Fprintf(os.Stderr, "worker: unknown property %q\n", id)
		os.Exit(2)
	}
	return p
}

func cmdRun(args []string) {
	fs := flag.NewFlagSet("run", flag.ExitOnError)
	prop := fs.String("prop", "", "")
	tier := fs.String("tier", "quick", "")
	seed := fs.Uint64("seed", 1, "base seed")
	from := fs.Int64("from", 0, "")
	n := fs.Int64("n", 1, "")
	ff := fs.Bool("faultfree", false, "")
	outdir := fs.String("outdir", ".", "")
	samples := fs.Int("samples", 0, "emit the scenario of the first k runs")
	maxFail := fs.Int("maxfail", 2, "")
	memMB := fs.Uint64("mem", 3000, "stop early when the process holds more than this many MB")
	deadline := fs.Int64("deadline", 0, "unix seconds after which no new run starts")
	knownFile := fs.String("known", "", "known_findings.json: matching failures do not count towards -maxfail and keep one replay file each")
	fs.Parse(args)
	p := getProp(*prop)
	if *knownFile != "" {
		knownPath = *knownFile
	}
	known := knownFor(*prop)
	knownSeen := map[int]bool{}
	fails := 0
	for i := *from; i < *from+*n; i++ {
		if *deadline > 0 && time.Now().Unix() >= *deadline {
			fmt.Printf("{\"stopped_at\":%d,\"why\":\"deadline\"}\n", i)
			return
		}
		runSeed := splitmix(*seed ^ splitmix(uint64(i)+0x51ED))
		if *ff {
			runSeed = splitmix(runSeed ^ 0xFF)
		}
		t0 := time.Now()
		g := gen.New(runSeed)
		c, v := execute(p, *tier, *ff, g, nil)
		l := lineOf(i, runSeed, *ff, c, v, time.Since(t0))
		if int(i-*from) < *samples {
			l.Scenario = c.Scenario
		}
		ki := -1
		if !v.OK {
			ki = matchKnown(known, v)
		}
		if !v.OK && ki >= 0 && knownSeen[ki] {
			// a further instance of a known finding: reported in the line, no replay file
			l.Known = true
			emit(l)
			continue
		}
		if !v.OK {
			rf := ReplayFile{Property: p.ID, Tier: *tier, FaultFree: *ff, BaseSeed: *seed, RunIndex: i, RunSeed: runSeed,
				GenTape: g.Tape(), WorldTapes: c.OutTapes, Class: v.Class, Detail: v.Detail, Shape: v.Shape, Trace: c.Trace, Scenario: c.Scenario}
			path := fmt.Sprintf("%s/%s-%d.json", *outdir, p.ID, runSeed)
			if err := writeReplay(path, &rf); err != nil {
				fmt.Fprintln(os.Stderr, "worker:", err)
				os.Exit(2)
			}
			l.Replay = path
			l.Scenario = c.Scenario
			if ki >= 0 {
				knownSeen[ki] = true
				l.Known = true
			} else {
				fails++
			}
		}
		emit(l)
		if fails >= *maxFail {
			fmt.Printf("{\"stopped_at\":%d,\"why\":\"maxfail\"}\n", i+1)
			return
		}
		if i%8 == 7 {
			var ms runtime.MemStats
			runtime.ReadMemStats(&ms)
			if ms.Sys>>20 > *memMB {
				fmt.Printf("{\"stopped_at\":%d,\"why\":\"mem\"}\n", i+1)
				return
			}
		}
	}
}

func writeReplay(path string, rf *ReplayFile) error {
	b, err := json.Marshal(rf)
	if err != nil {
		return err
	}
	return os.WriteFile(path, b, 0644)
}

func readReplay(path string) *ReplayFile {
	b, err := os.ReadFile(path)
	if err != nil {
		fmt.Fprintln(os.Stderr, "worker:", err)
		os.Exit(2)
	}
	var rf ReplayFile
	if err := json.Unmarshal(b, &rf); err != nil {
		fmt.Fprintln(os.Stderr, "worker: bad replay file:", err)
		os.Exit(2)
	}
	return &rf
}

func cmdReplay(args []string) {
	fs := flag.NewFlagSet("replay", flag.ExitOnError)
	file := fs.String("file", "", "")
	verbose := fs.Bool("v", false, "")
	fs.Parse(args)
	rf := readReplay(*file)
	p := getProp(rf.Property)
	t0 := time.Now()
	c, v := execute(p, rf.Tier, rf.FaultFree, gen.Replay(rf.GenTape), rf.WorldTapes)
	l := lineOf(rf.RunIndex, rf.RunSeed, rf.FaultFree, c, v, time.Since(t0))
	l.Scenario = c.Scenario
	emit(l)
	if *verbose {
		fmt.Fprintf(os.Stderr, "class=%q\n%s\n", v.Class, v.Detail)
	}
}

// ---- minimisation (delta debugging over the two tapes) ----

func sameClass(a, b string) bool { return a == b }

func cmdMinimise(args []string) {
	fs := flag.NewFlagSet("minimise", flag.ExitOnError)
	file := fs.String("file", "", "")
	out := fs.String("out", "", "")
	budget := fs.Int("budget", 60, "seconds")
	fs.Parse(args)
	rf := readReplay(*file)
	p := getProp(rf.Property)
	deadline := time.Now().Add(time.Duration(*budget) * time.Second)
	class := rf.Class
	tries, kept := 0, 0
	rfShape, _ := rf.Shape.(map[string]interface{})
	wasKnown := matchKnown(knownFor(rf.Property), props.Verdict{Class: rf.Class, Shape: rfShape}) >= 0

	cur := &ReplayFile{}
	*cur = *rf
	try := func(gt []uint32, wt [][]uint32) bool {
		if time.Now().After(deadline) {
			return false
		}
		tries++
		c, v := execute(p, rf.Tier, rf.FaultFree, gen.Replay(gt), wt)
		if !v.OK && sameClass(v.Class, class) && (matchKnown(knownFor(rf.Property), v) >= 0) == wasKnown {
			kept++
			cur.GenTape = append([]uint32(nil), c.G.Tape()...)
			cur.WorldTapes = c.OutTapes
			cur.Detail = v.Detail
			cur.Shape = v.Shape
			cur.Trace = c.Trace
			cur.Scenario = c.Scenario
			return true
		}
		return false
	}
	// confirm first
	if !try(rf.GenTape, rf.WorldTapes) {
		fmt.Printf("{\"minimise\":\"not-reproduced\",\"tries\":%d}\n", tries)
		os.Exit(3)
	}
	// pass 1: shrink the generator tape (fewer/smaller workload choices); schedule tapes are dropped
	// first (PRNG-free replay falls back to "stay on the current goroutine"), then restored if needed.
	shrinkTape := func(get func() []uint32, attempt func([]uint32) bool) {
		// delete chunks
		for size := len(get()) / 2; size >= 1; size /= 2 {
			for i := 0; i+size <= len(get()); {
				t := get()
				cand := append(append([]uint32(nil), t[:i]...), t[i+size:]...)
				if attempt(cand) {
					continue
				}
				i += size
				if time.Now().After(deadline) {
					return
				}
			}
		}
		// zero, then halve values
		for i := 0; i < len(get()); i++ {
			t := get()
			if t[i] == 0 {
				continue
			}
			cand := append([]uint32(nil), t...)
			cand[i] = 0
			if attempt(cand) {
				continue
			}
			for v := t[i] / 2; v > 0; v /= 2 {
				cand := append([]uint32(nil), get()...)
				if i >= len(cand) {
					break
				}
				cand[i] = v
				if !attempt(cand) {
					break
				}
			}
			if time.Now().After(deadline) {
				return
			}
		}
	}
	zeroChunks := func(get func() []uint32, attempt func([]uint32) bool) {
		for size := len(get()); size >= 1; size /= 2 {
			for i := 0; i < len(get()); i += size {
				t := get()
				end := i + size
				if end > len(t) {
					end = len(t)
				}
				allZero := true
				for _, v := range t[i:end] {
					if v != 0 {
						allZero = false
					}
				}
				if allZero {
					continue
				}
				cand := append([]uint32(nil), t...)
				for j := i; j < end; j++ {
					cand[j] = 0
				}
				attempt(cand)
				if time.Now().After(deadline) {
					return
				}
			}
			if size == 1 {
				break
			}
		}
	}
	for round := 0; round < 3 && time.Now().Before(deadline); round++ {
		before := kept
		shrinkTape(func() []uint32 { return cur.GenTape }, func(gt []uint32) bool { return try(gt, cur.WorldTapes) })
		for wi := range cur.WorldTapes {
			wi := wi
			attempt := func(t []uint32) bool {
				wt := make([][]uint32, len(cur.WorldTapes))
				copy(wt, cur.WorldTapes)
				wt[wi] = t
				return try(cur.GenTape, wt)
			}
			// truncate from the end (choices after the failure do not matter)
			for len(cur.WorldTapes) > wi && len(cur.WorldTapes[wi]) > 0 {
				t := cur.WorldTapes[wi]
				if !attempt(t[:len(t)/2]) {
					break
				}
			}
			if wi < len(cur.WorldTapes) {
				zeroChunks(func() []uint32 {
					if wi < len(cur.WorldTapes) {
						return cur.WorldTapes[wi]
					}
					return nil
				}, attempt)
			}
		}
		if kept == before {
			break
		}
	}
	cur.Minimised = true
	cur.Class = class
	nz := 0
	total := 0
	for _, t := range cur.WorldTapes {
		for _, v := range t {
			total++
			if v != 0 {
				nz++
			}
		}
	}
	cur.Note = fmt.Sprintf("minimised: %d candidate executions, %d accepted; generator tape %d -> %d choices; schedule tapes: %d choices of which %d non-default",
		tries, kept, len(rf.GenTape), len(cur.GenTape), total, nz)
	dst := *out
	if dst == "" {
		dst = strings.TrimSuffix(*file, ".json") + ".min.json"
	}
	if err := writeReplay(dst, cur); err != nil {
		fmt.Fprintln(os.Stderr, "worker:", err)
		os.Exit(2)
	}
	fmt.Printf("{\"minimise\":\"ok\",\"tries\":%d,\"kept\":%d,\"out\":%q}\n", tries, kept, dst)
}
