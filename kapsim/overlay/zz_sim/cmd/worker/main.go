package main

import (
	"fmt"
	"sync"
	"time"

	_ "github.com/influxdata/kapacitor"
	_ "github.com/influxdata/kapacitor/services/alert"
	_ "github.com/influxdata/kapacitor/services/httpd"
	_ "github.com/influxdata/kapacitor/services/storage"
	_ "github.com/influxdata/kapacitor/services/task_store"
	_ "github.com/influxdata/kapacitor/task/backend/scheduler"
	_ "github.com/influxdata/kapacitor/udf"
	_ "github.com/influxdata/kapacitor/udf/agent"
	"github.com/influxdata/kapacitor/zz_sim/simrt"
)

func main() {
	res := simrt.Run(simrt.Config{Seed: 1, SwitchProb: 0.5}, func() {
		ch := make(chan int)
		var wg sync.WaitGroup
		var mu sync.Mutex
		total := 0
		for i := 0; i < 3; i++ {
			wg.Add(1)
			go func(i int) {
				defer wg.Done()
				for j := 0; j < 5; j++ {
					ch <- i*10 + j
					time.Sleep(time.Millisecond)
				}
			}(i)
		}
		go func() { wg.Wait(); close(ch) }()
		for v := range ch {
			mu.Lock()
			total += v
			mu.Unlock()
		}
		select {
		case <-time.After(time.Second):
			fmt.Println("timeout fired at", time.Now())
		}
		fmt.Println("total", total)
	})
	fmt.Printf("%+v\n", res.Status)
	fmt.Println(res.Steps, res.Switches, res.VirtualNs, res.TraceHash, len(res.Tape))
}
