// Package simctx mirrors package context with deadlines on the virtual clock.
package simctx

import (
	"context"
	"time"

	"github.com/influxdata/kapacitor/zz_sim/simrt"
)

type Context = context.Context
type CancelFunc = context.CancelFunc
type CancelCauseFunc = context.CancelCauseFunc

var Canceled = context.Canceled
var DeadlineExceeded = context.DeadlineExceeded

func Background() Context { return context.Background() }
func TODO() Context       { return context.TODO() }
func WithValue(parent Context, key, val interface{}) Context {
	return context.WithValue(parent, key, val)
}
func WithCancel(parent Context) (Context, CancelFunc) { return context.WithCancel(parent) }
func WithCancelCause(parent Context) (Context, CancelCauseFunc) {
	return context.WithCancelCause(parent)
}
func Cause(c Context) error                       { return context.Cause(c) }
func WithoutCancel(parent Context) Context        { return context.WithoutCancel(parent) }
func AfterFunc(ctx Context, f func()) func() bool { panic("simctx: AfterFunc not supported") }

// deadlineCtx reports DeadlineExceeded and a deadline, but is otherwise the wrapped cancel context,
// so that children created by package context attach without helper goroutines.
type deadlineCtx struct {
	context.Context
	deadline time.Time
	expired  *bool
}

func (d *deadlineCtx) Deadline() (time.Time, bool) { return d.deadline, true }
func (d *deadlineCtx) Err() error {
	if err := d.Context.Err(); err != nil {
		if *d.expired {
			return context.DeadlineExceeded
		}
		return err
	}
	return nil
}

func WithDeadline(parent Context, d time.Time) (Context, CancelFunc) {
	if cur, ok := parent.Deadline(); ok && cur.Before(d) {
		return context.WithCancel(parent)
	}
	inner, cancel := context.WithCancel(parent)
	expired := new(bool)
	c := &deadlineCtx{Context: inner, deadline: d, expired: expired}
	dur := d.Sub(simrt.Now())
	if dur <= 0 {
		*expired = true
		cancel()
		return c, func() {}
	}
	t := simrt.NewFuncTimer(dur, "context.deadline", func() {
		*expired = true
		cancel()
	})
	return c, func() {
		t.Stop()
		cancel()
	}
}

func WithTimeout(parent Context, timeout time.Duration) (Context, CancelFunc) {
	return WithDeadline(parent, simrt.Now().Add(timeout))
}
