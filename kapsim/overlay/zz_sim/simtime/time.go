// Package simtime mirrors package time; everything that reads or waits on the clock uses the
// world's virtual clock, everything else is the real package time.
package simtime

import (
	"time"

	"github.com/influxdata/kapacitor/zz_sim/simrt"
)

type Duration = time.Duration
type Location = time.Location
type Month = time.Month
type ParseError = time.ParseError
type Time = time.Time
type Weekday = time.Weekday

const (
	Layout      = time.Layout
	ANSIC       = time.ANSIC
	UnixDate    = time.UnixDate
	RubyDate    = time.RubyDate
	RFC822      = time.RFC822
	RFC822Z     = time.RFC822Z
	RFC850      = time.RFC850
	RFC1123     = time.RFC1123
	RFC1123Z    = time.RFC1123Z
	RFC3339     = time.RFC3339
	RFC3339Nano = time.RFC3339Nano
	Kitchen     = time.Kitchen
	Stamp       = time.Stamp
	StampMilli  = time.StampMilli
	StampMicro  = time.StampMicro
	StampNano   = time.StampNano
	DateTime    = time.DateTime
	DateOnly    = time.DateOnly
	TimeOnly    = time.TimeOnly
)

const (
	Nanosecond  = time.Nanosecond
	Microsecond = time.Microsecond
	Millisecond = time.Millisecond
	Second      = time.Second
	Minute      = time.Minute
	Hour        = time.Hour
)

const (
	January   = time.January
	February  = time.February
	March     = time.March
	April     = time.April
	May       = time.May
	June      = time.June
	July      = time.July
	August    = time.August
	September = time.September
	October   = time.October
	November  = time.November
	December  = time.December
)

const (
	Sunday    = time.Sunday
	Monday    = time.Monday
	Tuesday   = time.Tuesday
	Wednesday = time.Wednesday
	Thursday  = time.Thursday
	Friday    = time.Friday
	Saturday  = time.Saturday
)

var (
	Local = time.Local
	UTC   = time.UTC
)

func FixedZone(name string, offset int) *Location { return time.FixedZone(name, offset) }
func LoadLocation(name string) (*Location, error) { return time.LoadLocation(name) }

// SetLocal sets the process-wide local zone (the real package's, which Time.Local() and time.Unix use) and returns
// the function that restores it. Only between worlds or at the start of a case: nothing else runs then.
func SetLocal(loc *Location) (restore func()) {
	old := time.Local
	time.Local, Local = loc, loc
	return func() { time.Local, Local = old, old }
}
func LoadLocationFromTZData(name string, data []byte) (*Location, error) {
	return time.LoadLocationFromTZData(name, data)
}
func ParseDuration(s string) (Duration, error) { return time.ParseDuration(s) }
func Date(year int, month Month, day, hour, min, sec, nsec int, loc *Location) Time {
	return time.Date(year, month, day, hour, min, sec, nsec, loc)
}
func Parse(layout, value string) (Time, error) { return time.Parse(layout, value) }
func ParseInLocation(layout, value string, loc *Location) (Time, error) {
	return time.ParseInLocation(layout, value, loc)
}
func Unix(sec int64, nsec int64) Time { return time.Unix(sec, nsec) }
func UnixMicro(usec int64) Time       { return time.UnixMicro(usec) }
func UnixMilli(msec int64) Time       { return time.UnixMilli(msec) }

// ---- virtual clock ----

func Now() Time {
	if !simrt.Active() {
		return simrt.Now().In(time.Local)
	}
	return simrt.Now().In(time.Local)
}
func Since(t Time) Duration { return simrt.Now().Sub(t) }
func Until(t Time) Duration { return t.Sub(simrt.Now()) }
func Sleep(d Duration)      { simrt.Sleep(d) }

func After(d Duration) <-chan Time {
	_, ch := simrt.NewTimerEntry(d, 0)
	return ch
}

func Tick(d Duration) <-chan Time {
	if d <= 0 {
		return nil
	}
	_, ch := simrt.NewTimerEntry(d, d)
	return ch
}

type Timer struct {
	C <-chan Time
	e *simrt.TimerEntry
}

func NewTimer(d Duration) *Timer {
	e, ch := simrt.NewTimerEntry(d, 0)
	return &Timer{C: ch, e: e}
}

func AfterFunc(d Duration, f func()) *Timer {
	return &Timer{e: simrt.NewFuncTimer(d, "time.AfterFunc", f)}
}

func (t *Timer) Stop() bool {
	if t.e == nil {
		panic("time: Stop called on uninitialized Timer")
	}
	return t.e.Stop()
}

func (t *Timer) Reset(d Duration) bool {
	if t.e == nil {
		panic("time: Reset called on uninitialized Timer")
	}
	return t.e.Reset(d)
}

type Ticker struct {
	C <-chan Time
	e *simrt.TimerEntry
}

func NewTicker(d Duration) *Ticker {
	if d <= 0 {
		panic("non-positive interval for NewTicker")
	}
	e, ch := simrt.NewTimerEntry(d, d)
	return &Ticker{C: ch, e: e}
}

func (t *Ticker) Stop() {
	if t.e != nil {
		t.e.Stop()
	}
}

func (t *Ticker) Reset(d Duration) {
	if d <= 0 {
		panic("non-positive interval for Ticker.Reset")
	}
	t.e.ResetPeriod(d)
}
