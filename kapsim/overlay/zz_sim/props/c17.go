package props

import (
	"context"
	"errors"
	"fmt"
	"os"
	"sync"
	"time"

	"github.com/influxdata/influxdb/v2/kit/platform"
	"github.com/influxdata/kapacitor/task/backend/coordinator"
	"github.com/influxdata/kapacitor/task/backend/executor"
	"github.com/influxdata/kapacitor/task/backend/scheduler"
	"github.com/influxdata/kapacitor/task/taskmodel"
	"github.com/influxdata/kapacitor/zz_sim/simrt"
	"go.uber.org/zap"
)

// C17 — scheduled task runs happen in order, exactly once, only while scheduled.

type c17Op struct {
	Kind  string `json:"op"` // schedule | release | sleep | jump
	ID    int    `json:"id,omitempty"`
	Cron  string `json:"cron,omitempty"`
	OffS  int    `json:"offset_s,omitempty"`
	LastS int    `json:"last_scheduled_s,omitempty"` // seconds relative to the world's start
	DurMs int    `json:"ms,omitempty"`
}

type c17Scenario struct {
	Workers   int       `json:"workers"`
	Clients   [][]c17Op `json:"clients"`
	ExecMs    []int     `json:"exec_latency_ms"` // cycled
	ExecErr   int       `json:"exec_err_every"`  // 0 never
	ExecPanic int       `json:"exec_panic_every"`
	CkptMs    int       `json:"checkpoint_latency_ms"`
	CkptErr   int       `json:"checkpoint_err_every"`
	TailS     int       `json:"quiet_tail_s"`
	Config    string    `json:"config"`
}

// the last two schedules run out (the world starts at 2021-03-04T05:06:07Z): after its last occurrence a task is simply not run again
var c17Crons = []string{"@every 1s", "@every 2s", "@every 7s", "*/3 * * * * *", "*/10 * * * * * *", "15,45 * * * * * *", "@every 1m", "9,12,15 6 5 4 3 * 2021", "*/2 6 5 4 3 * 2021"}

func c17Gen(c *Ctx) *c17Scenario {
	g := c.G
	sc := &c17Scenario{Workers: g.Range(1, 4)}
	nids := g.Range(1, 4)
	nc := g.Range(1, 3)
	maxOps := 8
	if c.Thorough() {
		maxOps = 16
	}
	for cl := 0; cl < nc; cl++ {
		var ops []c17Op
		n := g.Range(1, maxOps)
		for i := 0; i < n; i++ {
			switch g.Intn(8) {
			case 0, 1, 2:
				ops = append(ops, c17Op{Kind: "schedule", ID: 1 + g.Intn(nids), Cron: g.Pick(c17Crons), OffS: []int{0, 0, 1, 3, -2}[g.Intn(5)], LastS: []int{0, 0, -5, -30, 2}[g.Intn(5)]})
			case 3:
				ops = append(ops, c17Op{Kind: "release", ID: 1 + g.Intn(nids)})
			case 4, 5, 6:
				ops = append(ops, c17Op{Kind: "sleep", DurMs: []int{100, 1000, 2500, 10000}[g.Intn(4)]})
			default:
				if c.FaultFree {
					ops = append(ops, c17Op{Kind: "sleep", DurMs: 1000})
				} else {
					ops = append(ops, c17Op{Kind: "jump", DurMs: []int{1500, 20000, 120000}[g.Intn(3)]})
				}
			}
		}
		sc.Clients = append(sc.Clients, ops)
	}
	sc.ExecMs = []int{0}
	if g.Bool() {
		sc.ExecMs = []int{[]int{0, 10, 300}[g.Intn(3)], []int{0, 1500, 50}[g.Intn(3)], 0}
	}
	if g.Chance(1, 5) {
		// one run in eight takes three hours: the worker of that task is busy while its next occurrences come due;
		// the API must stay responsive (its calls have a budget of one virtual hour)
		sc.ExecMs = []int{0, 10_800_000, 0, 0, []int{0, 10}[g.Intn(2)], 0, 0, 0}
	}
	if !c.FaultFree {
		if g.Chance(1, 3) {
			sc.ExecErr = g.Range(2, 5)
		}
		if g.Chance(1, 4) {
			sc.ExecPanic = g.Range(2, 6)
		}
		if g.Chance(1, 3) {
			sc.CkptMs = []int{5, 700}[g.Intn(2)]
		}
		if g.Chance(1, 4) {
			sc.CkptErr = g.Range(2, 4)
		}
	}
	sc.TailS = g.Range(3, 20)
	return sc
}

type c17Exec struct {
	id                  int
	forS                int64 // scheduledFor (unix s)
	runAtS              int64
	callStamp, retStamp int64
	callNowNs           int64 // virtual ns since epoch (absolute unix ns) at invoke
}

type c17Ckpt struct {
	id    int
	tS    int64
	stamp int64
}

type c17Api struct {
	kind                string
	id                  int
	callStamp, retStamp int64
	retNowNs            int64
	sch                 scheduler.Schedule
	lastS               int64 // effective lastScheduled (after NewSchedule alignment)
	offS                int64
}

type c17Sched struct {
	id   scheduler.ID
	sch  scheduler.Schedule
	off  time.Duration
	last time.Time
}

func (s c17Sched) ID() scheduler.ID             { return s.id }
func (s c17Sched) Schedule() scheduler.Schedule { return s.sch }
func (s c17Sched) Offset() time.Duration        { return s.off }
func (s c17Sched) LastScheduled() time.Time     { return s.last }

// ---- the coordinator: task records (created, updated, deactivated, deleted) drive the scheduler ----
// The task record carries two marks, the occurrence last handed to the executor (written by the scheduler's
// checkpoint) and the occurrence last completed (written when a run ends, later).  Whatever happens to the record, an
// occurrence at or before the later of the two marks the record carried when the coordinator was told must not run again.

type c17CoordOp struct {
	Kind  string `json:"op"` // update | deactivate | activate | delete | create | sleep | jump
	Every string `json:"every,omitempty"`
	OffS  int    `json:"offset_s,omitempty"`
	DurMs int    `json:"ms,omitempty"`
}

type c17CoordScenario struct {
	Kind   string       `json:"kind"`
	Every  string       `json:"every"`
	RunMs  []int        `json:"run_duration_ms"` // cycled: how long a run takes after the executor accepted it
	Ops    []c17CoordOp `json:"ops"`
	TailS  int          `json:"quiet_tail_s"`
	Config string       `json:"config"`
}

type c17NoExecutor struct{}

func (c17NoExecutor) ManualRun(ctx context.Context, id platform.ID, runID platform.ID) (executor.Promise, error) {
	return nil, errors.New("not simulated")
}
func (c17NoExecutor) Cancel(ctx context.Context, runID platform.ID) error { return nil }

// c17SchedSeam sits on the scheduler.Scheduler interface between the coordinator and the real TreeScheduler.
type c17SchedSeam struct {
	scheduler.Scheduler
	onSchedule func(scheduler.Schedulable)
}

func (p c17SchedSeam) Schedule(t scheduler.Schedulable) error {
	p.onSchedule(t)
	return p.Scheduler.Schedule(t)
}

func runC17Coord(c *Ctx) Verdict {
	g := c.G
	sc := &c17CoordScenario{Kind: "coordinator", Every: []string{"1s", "2s", "3s"}[g.Intn(3)], TailS: g.Range(3, 10)}
	sc.RunMs = []int{[]int{0, 400, 1500, 2600}[g.Intn(4)], []int{0, 2600, 700}[g.Intn(3)], []int{0, 5200}[g.Intn(2)]}
	n := g.Range(2, 10)
	for i := 0; i < n; i++ {
		switch g.Intn(9) {
		case 0, 1, 2:
			sc.Ops = append(sc.Ops, c17CoordOp{Kind: "update", Every: []string{"", "", "1s", "2s"}[g.Intn(4)], OffS: []int{0, 0, 1}[g.Intn(3)]})
		case 3:
			sc.Ops = append(sc.Ops, c17CoordOp{Kind: "deactivate"}, c17CoordOp{Kind: "sleep", DurMs: []int{100, 2500}[g.Intn(2)]}, c17CoordOp{Kind: "activate"})
		case 4:
			sc.Ops = append(sc.Ops, c17CoordOp{Kind: "delete"}, c17CoordOp{Kind: "sleep", DurMs: []int{100, 2500}[g.Intn(2)]}, c17CoordOp{Kind: "create"})
		case 5:
			if !c.FaultFree {
				sc.Ops = append(sc.Ops, c17CoordOp{Kind: "jump", DurMs: []int{1500, 20000}[g.Intn(2)]})
				break
			}
			fallthrough
		default:
			sc.Ops = append(sc.Ops, c17CoordOp{Kind: "sleep", DurMs: []int{100, 1000, 2500, 700}[g.Intn(4)]})
		}
	}
	c.Scenario = sc
	cfg := c.WorldConfig()
	cfg.StepCostNs = []int64{200_000, 1_000_000, 5_000_000}[g.Intn(3)]
	cfg.MaxSteps = 8_000_000
	sc.Config = fmt.Sprintf("%v p=%.2f step=%dns", cfg.Strategy, cfg.SwitchProb, cfg.StepCostNs)
	type told struct {
		kind                string
		markS               int64 // the later of the record's two marks (and its creation time) when the coordinator was told
		callStamp, retStamp int64
	}
	type run struct {
		forS      int64
		callStamp int64
	}
	var verdict Verdict
	var tolds []told
	var runs []run
	res := c.World(cfg, func() {
		start := time.Now().UTC().Truncate(time.Second)
		// the task record, as the task store would hold it
		var mu sync.Mutex
		rec := &taskmodel.Task{ID: 7, Every: sc.Every, Status: string(taskmodel.TaskActive), CreatedAt: start, LatestCompleted: start}
		nrun := 0
		exec := executorFunc(func(ctx context.Context, id scheduler.ID, scheduledFor, runAt time.Time) error {
			runs = append(runs, run{forS: scheduledFor.Unix(), callStamp: simrt.Stamp()})
			nrun++
			ms := sc.RunMs[nrun%len(sc.RunMs)]
			// the executor accepts the run and returns; the run itself ends later and is then recorded as completed
			go func() {
				if ms > 0 {
					time.Sleep(time.Duration(ms) * time.Millisecond)
				}
				mu.Lock()
				if scheduledFor.After(rec.LatestCompleted) {
					rec.LatestCompleted = scheduledFor
				}
				mu.Unlock()
			}()
			return nil
		})
		cp := checkpointFunc(func(ctx context.Context, id scheduler.ID, t time.Time) error {
			mu.Lock()
			if t.After(rec.LatestScheduled) {
				rec.LatestScheduled = t
			}
			mu.Unlock()
			return nil
		})
		s, _, err := scheduler.NewScheduler(exec, cp, scheduler.WithMaxConcurrentWorkers(2))
		if err != nil {
			verdict = Fail("harness/setup", "NewScheduler: %v", err)
			return
		}
		// what the coordinator asks of the scheduler: the first occurrence it asks for must lie after both marks of the record
		var pendingMark time.Time
		seam := c17SchedSeam{Scheduler: s, onSchedule: func(t scheduler.Schedulable) {
			next, err := t.Schedule().Next(t.LastScheduled())
			if err == nil && !next.After(pendingMark) && verdict.Class == "" {
				verdict = Fail("repeat-or-out-of-order", "the task record says that the occurrences up to %s have been handed to the executor or completed; the coordinator asks the scheduler to resume after %s, so that %s is run again", pendingMark.UTC().Format("15:04:05"), t.LastScheduled().UTC().Format("15:04:05"), next.UTC().Format("15:04:05"))
			}
		}}
		co := coordinator.NewCoordinator(zap.NewNop(), seam, c17NoExecutor{})
		snapshot := func() *taskmodel.Task {
			mu.Lock()
			defer mu.Unlock()
			cpy := *rec
			return &cpy
		}
		tell := func(kind string, f func(to *taskmodel.Task) error, to *taskmodel.Task) {
			mark := to.CreatedAt
			if to.LatestScheduled.After(mark) {
				mark = to.LatestScheduled
			}
			if to.LatestCompleted.After(mark) {
				mark = to.LatestCompleted
			}
			pendingMark = mark
			t := told{kind: kind, markS: mark.Unix(), callStamp: simrt.Stamp()}
			done := simrt.Expect("coordinator "+kind, 2_000_000, time.Hour)
			err := f(to)
			done()
			t.retStamp = simrt.Stamp()
			if err != nil && verdict.Class == "" {
				verdict = Fail("harness/setup", "coordinator %s: %v", kind, err)
			}
			tolds = append(tolds, t)
		}
		ctx := context.Background()
		tell("created", func(to *taskmodel.Task) error { return co.TaskCreated(ctx, to) }, snapshot())
		for _, op := range sc.Ops {
			switch op.Kind {
			case "sleep":
				time.Sleep(time.Duration(op.DurMs) * time.Millisecond)
			case "jump":
				simrt.JumpClock(time.Duration(op.DurMs) * time.Millisecond)
			case "update", "activate", "deactivate":
				from := snapshot()
				mu.Lock()
				if op.Every != "" {
					rec.Every = op.Every
				}
				if op.Kind == "update" {
					rec.Offset = time.Duration(op.OffS) * time.Second
				}
				if op.Kind == "activate" {
					rec.Status = string(taskmodel.TaskActive)
				}
				if op.Kind == "deactivate" {
					rec.Status = string(taskmodel.TaskInactive)
				}
				mu.Unlock()
				to := snapshot()
				if to.Status == string(taskmodel.TaskInactive) && op.Kind == "update" {
					break // (an update of an inactive task would activate it in the scheduler: not what this scenario is about)
				}
				tell(op.Kind, func(to *taskmodel.Task) error { return co.TaskUpdated(ctx, from, to) }, to)
			case "delete":
				tell("deleted", func(to *taskmodel.Task) error { return co.TaskDeleted(ctx, to.ID) }, snapshot())
			case "create":
				// the same task is defined again: it keeps its marks (as a restored backup would)
				mu.Lock()
				rec.Status = string(taskmodel.TaskActive)
				mu.Unlock()
				tell("created", func(to *taskmodel.Task) error { return co.TaskCreated(ctx, to) }, snapshot())
			}
		}
		simrt.Fair()
		time.Sleep(time.Duration(sc.TailS) * time.Second)
		go s.Stop()
	})
	if v, bad := WorldVerdict(res, false); bad {
		return v
	}
	if verdict.Class != "" {
		return verdict
	}
	if len(runs) == 0 {
		c.Trivial = true
	}
	for i, t := range tolds {
		hi := int64(1) << 62
		if i+1 < len(tolds) {
			hi = tolds[i+1].callStamp
		}
		first := true
		for _, r := range runs {
			if r.callStamp <= t.retStamp || r.callStamp >= hi {
				continue
			}
			// (the first run after the call may have been handed to its worker under an earlier call's schedule: the previous
			// one's, or, when calls follow one another with no run in between, one further back)
			straggler := false
			for j := i - 1; first && j >= 0; j-- {
				if r.forS > tolds[j].markS {
					straggler = true
					break
				}
				busy := false
				for _, r2 := range runs {
					if r2.callStamp > tolds[j].retStamp && r2.callStamp < tolds[j+1].callStamp {
						busy = true
					}
				}
				if busy {
					break
				}
			}
			first = false
			if r.forS <= t.markS && !straggler {
				var fs []string
				for _, r2 := range runs {
					fs = append(fs, fmtS(r2.forS))
				}
				return Fail("repeat-or-out-of-order", "when the coordinator was told of the task (%s, call #%d) the record's marks said that everything up to %s had been handed to the executor or completed; after that call had returned the executor was invoked for %s again. all runs: %v", t.kind, i, fmtS(t.markS), fmtS(r.forS), fs)
			}
		}
	}
	return Pass()
}

func runC17(c *Ctx) Verdict {
	if c.G.Chance(1, 6) {
		return runC17Coord(c)
	}
	sc := c17Gen(c)
	c.Scenario = sc
	cfg := c.WorldConfig()
	if cfg.Strategy == simrt.StratStarve {
		cfg.StarveRole = []string{"treescheduler.go", "c17.go"}[c.G.Intn(2)]
	}
	// the scheduler's main loop spins while a due item's worker is busy: time must advance per step
	cfg.StepCostNs = []int64{200_000, 1_000_000, 5_000_000}[c.G.Intn(3)]
	cfg.MaxSteps = 8_000_000
	sc.Config = fmt.Sprintf("%v p=%.2f step=%dns late=%d", cfg.Strategy, cfg.SwitchProb, cfg.StepCostNs, cfg.TimerLateNs)

	var verdict Verdict
	var execs []*c17Exec
	var ckpts []c17Ckpt
	var apis []*c17Api
	var endNowNs int64
	nexec := 0
	nckpt := 0
	maxLatency := time.Duration(0)
	for _, m := range sc.ExecMs {
		if d := time.Duration(m) * time.Millisecond; d > maxLatency {
			maxLatency = d
		}
	}

	res := c.World(cfg, func() {
		start := time.Now().UTC()
		exec := executorFunc(func(ctx context.Context, id scheduler.ID, scheduledFor, runAt time.Time) error {
			e := &c17Exec{id: int(id), forS: scheduledFor.Unix(), runAtS: runAt.Unix(), callStamp: simrt.Stamp(), callNowNs: time.Now().UnixNano()}
			execs = append(execs, e)
			nexec++
			n := nexec
			if ms := sc.ExecMs[n%len(sc.ExecMs)]; ms > 0 {
				time.Sleep(time.Duration(ms) * time.Millisecond)
				simrt.Count("fault.executor.slow")
			}
			e.retStamp = simrt.Stamp()
			if sc.ExecPanic > 0 && n%sc.ExecPanic == 0 {
				simrt.Count("fault.executor.panic")
				panic("executor panics")
			}
			if sc.ExecErr > 0 && n%sc.ExecErr == 0 {
				simrt.Count("fault.executor.err")
				return errors.New("executor fails")
			}
			return nil
		})
		cp := checkpointFunc(func(ctx context.Context, id scheduler.ID, t time.Time) error {
			nckpt++
			if sc.CkptMs > 0 {
				time.Sleep(time.Duration(sc.CkptMs) * time.Millisecond)
				simrt.Count("fault.checkpoint.slow")
			}
			ckpts = append(ckpts, c17Ckpt{id: int(id), tS: t.Unix(), stamp: simrt.Stamp()})
			if sc.CkptErr > 0 && nckpt%sc.CkptErr == 0 {
				simrt.Count("fault.checkpoint.err")
				return errors.New("checkpoint fails")
			}
			return nil
		})
		s, _, err := scheduler.NewScheduler(exec, cp, scheduler.WithMaxConcurrentWorkers(sc.Workers))
		if err != nil {
			verdict = Fail("harness/setup", "NewScheduler: %v", err)
			return
		}
		var wg sync.WaitGroup
		for _, ops := range sc.Clients {
			wg.Add(1)
			go func(ops []c17Op) {
				defer wg.Done()
				for _, op := range ops {
					switch op.Kind {
					case "sleep":
						time.Sleep(time.Duration(op.DurMs) * time.Millisecond)
					case "jump":
						simrt.JumpClock(time.Duration(op.DurMs) * time.Millisecond)
					case "schedule":
						last := start.Add(time.Duration(op.LastS) * time.Second)
						sch, eff, err := scheduler.NewSchedule(op.Cron, last)
						if err != nil {
							verdict = Fail("harness/setup", "NewSchedule(%q): %v", op.Cron, err)
							return
						}
						a := &c17Api{kind: "schedule", id: op.ID, sch: sch, lastS: eff.Unix(), offS: int64(op.OffS)}
						apis = append(apis, a)
						a.callStamp = simrt.Stamp()
						done := simrt.Expect("Schedule", 2_000_000, time.Hour)
						err = s.Schedule(c17Sched{id: scheduler.ID(op.ID), sch: sch, off: time.Duration(op.OffS) * time.Second, last: eff})
						done()
						a.retStamp = simrt.Stamp()
						a.retNowNs = time.Now().UnixNano()
						if err != nil {
							a.kind = "schedule-failed"
						}
					case "release":
						a := &c17Api{kind: "release", id: op.ID}
						apis = append(apis, a)
						a.callStamp = simrt.Stamp()
						done := simrt.Expect("Release", 2_000_000, time.Hour)
						s.Release(scheduler.ID(op.ID))
						done()
						a.retStamp = simrt.Stamp()
						a.retNowNs = time.Now().UnixNano()
					}
				}
			}(ops)
		}
		done := simrt.Expect("clients finish", 6_000_000, 24*time.Hour)
		wg.Wait()
		done()
		// faults stop: fair scheduling, then a quiet tail during which everything due must run
		simrt.Fair()
		time.Sleep(time.Duration(sc.TailS) * time.Second)
		endNowNs = time.Now().UnixNano()
		// Stop is not part of the property's statement (it can stay in the main loop's catch-up loop for as long
		// as some item is due and its worker busy); it is issued without waiting for it.
		go s.Stop()
	})
	if v, bad := WorldVerdict(res, false); bad {
		return v
	}
	if verdict.Class != "" {
		return verdict
	}
	if os.Getenv("KAPSIM_DEBUG") != "" {
		for _, a := range apis {
			fmt.Fprintf(os.Stderr, "API %s id=%d [%d..%d] ret@%s last=%s off=%d\n", a.kind, a.id, a.callStamp, a.retStamp, time.Unix(0, a.retNowNs).UTC().Format("15:04:05.000"), fmtS(a.lastS), a.offS)
		}
		for _, e := range execs {
			fmt.Fprintf(os.Stderr, "EXEC id=%d for=%s runAt=%s [%d..%d] at %s\n", e.id, fmtS(e.forS), fmtS(e.runAtS), e.callStamp, e.retStamp, time.Unix(0, e.callNowNs).UTC().Format("15:04:05.000"))
		}
		fmt.Fprintf(os.Stderr, "END at %s\n", time.Unix(0, endNowNs).UTC().Format("15:04:05.000"))
	}
	if len(execs) == 0 {
		c.Trivial = true
	}

	// ---- history oracle, per id ----
	ids := map[int]bool{}
	for _, a := range apis {
		ids[a.id] = true
	}
	for _, e := range execs {
		ids[e.id] = true
	}
	for id := range ids {
		var ex []*c17Exec
		for _, e := range execs {
			if e.id == id {
				ex = append(ex, e)
			}
		}
		var ap []*c17Api
		for _, a := range apis {
			if a.id == id && a.kind != "schedule-failed" {
				ap = append(ap, a)
			}
		}
		// API calls of different clients on one id may overlap; epochs are only well defined when they do not
		overlap := false
		for i := 0; i < len(ap); i++ {
			for j := i + 1; j < len(ap); j++ {
				if ap[i].callStamp < ap[j].retStamp && ap[j].callStamp < ap[i].retStamp {
					overlap = true
				}
			}
		}
		// (a) never two Executes of one id at once; never before occurrence+offset
		for i, e := range ex {
			if e.retStamp == 0 {
				continue
			}
			if i+1 < len(ex) && ex[i+1].callStamp < e.retStamp {
				return Fail("overlap", "task %d: Execute for %s was invoked while Execute for %s was still running", id, fmtS(ex[i+1].forS), fmtS(e.forS))
			}
		}
		for _, e := range ex {
			off := e.runAtS - e.forS
			if e.callNowNs < (e.forS+off)*1e9 {
				return Fail("early", "task %d: Execute for occurrence %s (offset %ds) invoked at %s on the scheduler's clock, before occurrence+offset", id, fmtS(e.forS), off, time.Unix(0, e.callNowNs).UTC().Format("15:04:05.000"))
			}
		}
		// (a2) every run is followed by exactly one checkpoint naming the occurrence that ran, in the same order;
		// together with clause (b) this makes the checkpoint move forward within an epoch
		{
			var cks []c17Ckpt
			for _, ck := range ckpts {
				if ck.id == id {
					cks = append(cks, ck)
				}
			}
			if len(cks) > len(ex) {
				return Fail("checkpoint-unexecuted", "task %d: %d checkpoints for %d executions", id, len(cks), len(ex))
			}
			for k, ck := range cks {
				if ck.tS != ex[k].forS {
					return Fail("checkpoint-mismatch", "task %d: checkpoint #%d names %s but execution #%d was for %s", id, k, fmtS(ck.tS), k, fmtS(ex[k].forS))
				}
				if ck.stamp < ex[k].retStamp {
					return Fail("checkpoint-early", "task %d: occurrence %s was checkpointed before its execution returned", id, fmtS(ck.tS))
				}
			}
		}
		if len(ap) == 0 {
			if len(ex) > 0 {
				return Fail("unscheduled", "task %d was never scheduled but executed %d times", id, len(ex))
			}
			continue
		}
		if overlap {
			continue // concurrent Schedule/Release on one id: only the clauses above are well defined
		}
		// (b) per epoch
		for k, a := range ap {
			lo := a.retStamp
			hi := int64(1) << 62
			if k+1 < len(ap) {
				hi = ap[k+1].callStamp
			}
			var seq []*c17Exec
			for _, e := range ex {
				if e.callStamp > lo && e.callStamp < hi {
					seq = append(seq, e)
				}
			}
			// Executes invoked between the call and the return of this API call belong to either side
			if a.kind == "release" {
				// at most one run may still arrive (it was already handed to its worker), and it must have been due
				if len(seq) > 1 {
					return Fail("run-after-release", "task %d: %d Executes were invoked after Release returned (%s ...): only a run already handed to a worker may still arrive", id, len(seq), fmtS(seq[0].forS))
				}
				for _, e := range seq {
					if e.runAtS*1e9 > a.retNowNs {
						return Fail("run-after-release", "task %d: occurrence %s (due %s) was executed although Release had returned at %s", id, fmtS(e.forS), fmtS(e.runAtS), time.Unix(0, a.retNowNs).UTC().Format("15:04:05.000"))
					}
				}
				continue
			}
			// schedule epoch: optional single straggler of the previous epoch, then consecutive iterates
			first, err := a.sch.Next(time.Unix(a.lastS, 0).UTC())
			if err != nil {
				continue
			}
			check := func(i int) (Verdict, time.Time, error) {
				want := first
				var err error
				for ; i < len(seq); i++ {
					e := seq[i]
					if e.forS != want.Unix() {
						cls := "gap"
						if e.forS < want.Unix() {
							cls = "repeat-or-out-of-order"
						}
						return Fail(cls, "task %d (epoch %d: Schedule returned at stamp %d, first occurrence %s): Execute #%d of the epoch was for %s, want the consecutive occurrence %s; executions of the epoch: %s", id, k, a.retStamp, fmtS(first.Unix()), i, fmtS(e.forS), fmtS(want.Unix()), c17Seq(seq)), want, nil
					}
					if e.runAtS-e.forS != a.offS {
						return Fail("offset", "task %d: occurrence %s executed with runAt-scheduledFor=%ds, offset is %ds", id, fmtS(e.forS), e.runAtS-e.forS, a.offS), want, nil
					}
					want, err = a.sch.Next(want)
					if err != nil {
						// the schedule has run out: this was its last occurrence
						if i+1 < len(seq) {
							return Fail("repeat-or-out-of-order", "task %d (epoch %d): %s was the last occurrence of the schedule, yet %d more Execute(s) followed (the next for %s); executions of the epoch: %s", id, k, fmtS(e.forS), len(seq)-i-1, fmtS(seq[i+1].forS), c17Seq(seq)), want, nil
						}
						break
					}
				}
				return Verdict{}, want, err
			}
			// a single straggler of the previous epoch (already handed to its worker when this Schedule took
			// effect) may come first; it may even be for the same occurrence if the schedule was re-issued unchanged
			v, want, err := check(0)
			if v.Class != "" && k > 0 && len(seq) > 0 {
				if v2, want2, err2 := check(1); v2.Class == "" {
					v, want, err = v2, want2, err2
				}
			}
			if v.Class != "" {
				return v
			}
			// (c) bounded liveness for the last epoch: everything due before the quiet tail ended (minus slack) ran
			// (only when executor and checkpointer are instantaneous: with latencies the offered load can exceed what
			// the workers can serve, and falling behind is then not the scheduler's doing)
			if k == len(ap)-1 && err == nil && maxLatency == 0 && sc.CkptMs == 0 {
				slack := int64(maxLatency/time.Second)*int64(len(seq)+2) + int64(sc.CkptMs/1000+1)*int64(len(seq)+2) + 3
				for want.Unix()+a.offS+slack < endNowNs/1e9 {
					// 'want' is the next occurrence that was not executed
					v := Fail("starved", "task %d: occurrence %s (due %s) had not been executed %ds after it became due, although no fault was injected during the last %ds and the scheduler was otherwise idle or catching up (executed %d occurrences in this epoch)",
						id, fmtS(want.Unix()), fmtS(want.Unix()+a.offS), endNowNs/1e9-(want.Unix()+a.offS), sc.TailS, len(seq))
					// catching up after a jump over many occurrences is allowed to take longer than the tail
					if len(seq) > 0 && seq[len(seq)-1].callNowNs/1e9 >= endNowNs/1e9-2 {
						break
					}
					return v
				}
			}
		}
	}
	return Pass()
}

func c17Seq(seq []*c17Exec) string {
	var out []string
	for _, e := range seq {
		out = append(out, fmtS(e.forS))
	}
	if len(out) > 12 {
		out = append(out[:12], "...")
	}
	return fmt.Sprint(out)
}

func fmtS(s int64) string { return time.Unix(s, 0).UTC().Format("15:04:05") }

type executorFunc func(ctx context.Context, id scheduler.ID, scheduledFor, runAt time.Time) error

func (f executorFunc) Execute(ctx context.Context, id scheduler.ID, scheduledFor, runAt time.Time) error {
	return f(ctx, id, scheduledFor, runAt)
}

type checkpointFunc func(ctx context.Context, id scheduler.ID, t time.Time) error

func (f checkpointFunc) UpdateLastScheduled(ctx context.Context, id scheduler.ID, t time.Time) error {
	return f(ctx, id, t)
}

func init() {
	Register(&Prop{
		ID:  "C17",
		Run: runC17,
		Rule: "case = TreeScheduler with 1-4 workers on the virtual clock x 1-3 concurrent API clients issuing Schedule / re-Schedule (7 cron/@every forms, offsets -2..3s, lastScheduled up to 30s in the past) / Release over 1-4 task ids, sleeps and forward clock jumps (1.5s-2min) x executor latency (0-1.5s, in a fifth of the cases one run in eight takes three hours)/errors/panics and checkpointer latency/errors x one seeded schedule; then a fault-free quiet tail and Stop; " +
			"(round 3) two of the schedules run out after a few occurrences; one case in six instead drives the scheduler through the real Coordinator (TaskCreated/TaskUpdated/TaskDeleted on a task record whose latest-scheduled mark is written by the scheduler's checkpoint and whose latest-completed mark 0-5.2s later): what the coordinator asks of the scheduler, observed on the scheduler.Scheduler interface, must resume after both marks, and no occurrence at or before them runs again (one straggler allowed); " +
			"non-trivial = at least one Execute happened; distinct = distinct (scenario, interleaving signature) pairs",
		Real:        []string{"task/backend/scheduler TreeScheduler (main loop, process, iterator, workers, Schedule, Release, Stop), Schedule/NewSchedule", "github.com/benbjohnson/clock (instrumented copy; real clock on the virtual time)", "influxdata/cron, google/btree (uninstrumented)"},
		Stub:        []string{"recording Executor and SchedulableService (the property's own observation seam)"},
		Assumptions: []string{"occurrences are computed with the same cron library the scheduler uses: the check is about order/exactly-once/timing, not cron arithmetic", "when two clients operate on one id concurrently only the overlap/early clauses are applied to that id", "one run already handed to a worker may still arrive after Release or re-Schedule", "liveness: after the last API call, every occurrence due more than (latency x backlog + 3s) before the end of a fair, fault-free tail has run"},
	})
}
