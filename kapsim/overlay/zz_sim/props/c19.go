package props

import (
	"bufio"
	"bytes"
	"fmt"
	"sort"
	"strings"
	"sync"
	"time"

	"github.com/influxdata/kapacitor/edge"
	"github.com/influxdata/kapacitor/models"
	"github.com/influxdata/kapacitor/services/diagnostic"
	"github.com/influxdata/kapacitor/udf"
	"github.com/influxdata/kapacitor/udf/agent"
	"github.com/influxdata/kapacitor/zz_sim/harness"
	"github.com/influxdata/kapacitor/zz_sim/simrt"
)

// C19 — data crosses the UDF boundary unchanged and the protocol is framed safely.

type c19Msg struct {
	Batch     bool                     `json:"batch"`
	Name      string                   `json:"name"`
	DB        string                   `json:"db,omitempty"`
	RP        string                   `json:"rp,omitempty"`
	Tags      map[string]string        `json:"tags"`
	Dims      []string                 `json:"dims"`
	ByName    bool                     `json:"by_name"`
	TimeNs    int64                    `json:"time_ns"`
	Newest1st bool                     `json:"points_newest_first,omitempty"` // the points of the batch are in descending time order (ORDER BY time DESC)
	Fields    map[string]interface{}   `json:"fields,omitempty"`
	Points    []map[string]interface{} `json:"points,omitempty"`      // batch: fields per point
	ZeroHint  bool                     `json:"size_hint_0,omitempty"` // the batch's begin announces 0 points
}

type c19Scenario struct {
	Msgs       []c19Msg `json:"messages"`
	Snapshots  [][]byte `json:"snapshots"` // restore+snapshot round trips issued concurrently
	Fragment   bool     `json:"fragment_reads"`
	FastKA     bool     `json:"fast_keepalive,omitempty"` // keepalive every 200 virtual ms and the sender pausing as long between messages: keepalives and data frames meet on the wire
	DelayMs    int      `json:"delay_ms"`
	DelayEvery int      `json:"delay_every"`
	Fault      string   `json:"fault"` // "" | stall | close | eof | corrupt
	FaultAt    int      `json:"fault_at_byte"`
	FaultSide  string   `json:"fault_side"` // toagent | toserver
	Config     string   `json:"config"`
}

var c19Strs = []string{"", "a", "héllo wörld", "quote\"s and ,commas= spaces", "line\nbreak", "☃\U0001F600", "null\x00byte"}

func c19Fields(c *Ctx) map[string]interface{} {
	g := c.G
	n := g.Range(1, 4)
	f := map[string]interface{}{}
	for i := 0; i < n; i++ {
		k := []string{"v", "w", "x y", "é", "s"}[g.Intn(5)]
		switch g.Intn(4) {
		case 0:
			f[k] = []int64{0, 1, -1, 1 << 53, (1 << 53) + 1, 9223372036854775807, -9223372036854775808}[g.Intn(7)]
		case 1:
			f[k] = []float64{0, 1.5, -2.25, 1e300, 5e-324, 3}[g.Intn(6)]
		case 2:
			f[k] = c19Strs[g.Intn(len(c19Strs))]
		default:
			f[k] = g.Bool()
		}
	}
	return f
}

func c19Gen(c *Ctx) *c19Scenario {
	g := c.G
	sc := &c19Scenario{}
	batch := g.Bool()
	n := g.Range(1, 8)
	if c.Thorough() {
		n = g.Range(1, 20)
	}
	for i := 0; i < n; i++ {
		m := c19Msg{Batch: batch, Name: []string{"m", "cpu load", "é"}[g.Intn(3)], TimeNs: int64(1e9)*int64(i+1) + int64(g.Intn(1000)), Tags: map[string]string{}}
		nt := g.Intn(4)
		for t := 0; t < nt; t++ {
			m.Tags[[]string{"host", "dc", "a,b", "x=y"}[g.Intn(4)]] = c19Strs[g.Intn(len(c19Strs))]
		}
		// dimensions: a subset of the tag names, sorted (as groupBy produces them)
		for _, k := range simrt.Keys(m.Tags) {
			if g.Bool() {
				m.Dims = append(m.Dims, k)
			}
		}
		m.ByName = g.Chance(1, 4)
		if batch {
			// a batch's tags are its group tags
			gt := map[string]string{}
			for _, d := range m.Dims {
				gt[d] = m.Tags[d]
			}
			m.Tags = gt
			np := g.Intn(5)
			m.ZeroHint = g.Chance(1, 3)
			for p := 0; p < np; p++ {
				m.Points = append(m.Points, c19Fields(c))
			}
		} else {
			m.DB, m.RP = []string{"db", ""}[g.Intn(2)], []string{"rp", ""}[g.Intn(2)]
			m.Fields = c19Fields(c)
		}
		sc.Msgs = append(sc.Msgs, m)
	}
	ns := g.Intn(3)
	for i := 0; i < ns; i++ {
		b := make([]byte, g.Intn(40))
		for j := range b {
			b[j] = byte(g.Intn(256))
		}
		sc.Snapshots = append(sc.Snapshots, b)
	}
	sc.Fragment = !c.FaultFree || g.Bool()
	sc.FastKA = g.Chance(1, 3)
	if g.Chance(1, 3) {
		sc.DelayMs = []int{1, 20, 50}[g.Intn(3)]
		sc.DelayEvery = g.Range(3, 9)
	}
	if sc.FastKA && sc.DelayMs > 1 {
		// a keepalive timeout of 400ms is a statement about the pipe: a frame read in small fragments with 20-50ms pauses
		// takes longer than that, and the server is right to give the process up.  Slow pipes keep the 10s timeout.
		sc.FastKA = false
	}
	if !c.FaultFree && g.Chance(1, 3) {
		sc.Fault = []string{"stall", "close", "eof", "corrupt"}[g.Intn(4)]
		sc.FaultAt = g.Range(1, 400)
		sc.FaultSide = []string{"toagent", "toserver"}[g.Intn(2)]
	}
	return sc
}

func (m c19Msg) build() edge.Message {
	dims := models.Dimensions{ByName: m.ByName, TagNames: m.Dims}
	if !m.Batch {
		return edge.NewPointMessage(m.Name, m.DB, m.RP, dims, models.Fields(simrt.CloneMap(m.Fields)), models.Tags(simrt.CloneMap(m.Tags)), time.Unix(0, m.TimeNs).UTC())
	}
	var pts []edge.BatchPointMessage
	for i, f := range m.Points {
		at := m.TimeNs - int64(len(m.Points)-i)
		if m.Newest1st {
			at = m.TimeNs - 1 - int64(i)
		}
		pts = append(pts, edge.NewBatchPointMessage(models.Fields(simrt.CloneMap(f)), models.Tags(simrt.CloneMap(m.Tags)), time.Unix(0, at).UTC()))
	}
	hint := len(pts)
	if m.ZeroHint {
		hint = 0 // what where(), eval() and the reducers announce
	}
	begin := edge.NewBeginBatchMessage(m.Name, models.Tags(simrt.CloneMap(m.Tags)), m.ByName, time.Unix(0, m.TimeNs).UTC(), hint)
	return edge.NewBufferedBatchMessage(begin, pts, edge.NewEndBatchMessage())
}

func c19Canon(msg edge.Message) string {
	fields := func(f models.Fields) string {
		var ss []string
		for _, k := range simrt.Keys(map[string]interface{}(f)) {
			ss = append(ss, fmt.Sprintf("%q=%T:%v", k, f[k], f[k]))
		}
		return strings.Join(ss, ",")
	}
	tags := func(t models.Tags) string {
		var ss []string
		for _, k := range simrt.Keys(map[string]string(t)) {
			ss = append(ss, fmt.Sprintf("%q=%q", k, t[k]))
		}
		return strings.Join(ss, ",")
	}
	switch m := msg.(type) {
	case edge.PointMessage:
		return fmt.Sprintf("point name=%q db=%q rp=%q group=%q dims=%q byname=%v tags[%s] fields[%s] t=%d", m.Name(), m.Database(), m.RetentionPolicy(), m.GroupID(), m.Dimensions().TagNames, m.Dimensions().ByName, tags(m.Tags()), fields(m.Fields()), m.Time().UnixNano())
	case edge.BufferedBatchMessage:
		var ps []string
		for _, p := range m.Points() {
			ps = append(ps, fmt.Sprintf("{tags[%s] fields[%s] t=%d}", tags(p.Tags()), fields(p.Fields()), p.Time().UnixNano()))
		}
		dims := append([]string(nil), m.Dimensions().TagNames...)
		sort.Strings(dims)
		return fmt.Sprintf("batch name=%q group=%q dims=%q byname=%v tags[%s] tmax=%d points=%s", m.Name(), m.GroupID(), dims, m.Dimensions().ByName, tags(m.Tags()), m.Time().UnixNano(), strings.Join(ps, " "))
	}
	return fmt.Sprintf("%T", msg)
}

// echoHandler mirrors everything it receives (built on the real udf/agent).
type echoHandler struct {
	a     *agent.Agent
	batch bool
	snap  []byte
}

func (h *echoHandler) Info() (*agent.InfoResponse, error) {
	et := agent.EdgeType_STREAM
	if h.batch {
		et = agent.EdgeType_BATCH
	}
	return &agent.InfoResponse{Wants: et, Provides: et, Options: map[string]*agent.OptionInfo{}}, nil
}
func (h *echoHandler) Init(*agent.InitRequest) (*agent.InitResponse, error) {
	return &agent.InitResponse{Success: true}, nil
}
func (h *echoHandler) Snapshot() (*agent.SnapshotResponse, error) {
	return &agent.SnapshotResponse{Snapshot: h.snap}, nil
}
func (h *echoHandler) Restore(r *agent.RestoreRequest) (*agent.RestoreResponse, error) {
	h.snap = r.Snapshot
	return &agent.RestoreResponse{Success: true}, nil
}
func (h *echoHandler) BeginBatch(b *agent.BeginBatch) error {
	h.a.Responses <- &agent.Response{Message: &agent.Response_Begin{Begin: b}}
	return nil
}
func (h *echoHandler) Point(p *agent.Point) error {
	h.a.Responses <- &agent.Response{Message: &agent.Response_Point{Point: p}}
	return nil
}
func (h *echoHandler) EndBatch(e *agent.EndBatch) error {
	h.a.Responses <- &agent.Response{Message: &agent.Response_End{End: e}}
	return nil
}
func (h *echoHandler) Stop() { close(h.a.Responses) }

func runC19(c *Ctx) Verdict {
	sc := c19Gen(c)
	c.Scenario = sc
	cfg := c.WorldConfig()
	cfg.MaxSteps = 4_000_000
	sc.Config = fmt.Sprintf("%v p=%.2f", cfg.Strategy, cfg.SwitchProb)
	timeout := 10 * time.Second
	if sc.FastKA && sc.Fault == "" {
		timeout = 400 * time.Millisecond
	}
	var verdict Verdict
	var got []string
	var snapErr string
	var stopErr, agentErr error
	aborted := false
	var leaked []simrt.ParkedInfo
	var want []string
	for _, m := range sc.Msgs {
		want = append(want, c19Canon(m.build()))
	}
	res := c.World(cfg, func() {
		toAgent := &harness.SimPipe{Name: "toagent", Fragment: sc.Fragment}
		toServer := &harness.SimPipe{Name: "toserver", Fragment: sc.Fragment}
		for _, p := range []*harness.SimPipe{toAgent, toServer} {
			p.Delay = time.Duration(sc.DelayMs) * time.Millisecond
			p.DelayEvery = sc.DelayEvery
		}
		fp := toAgent
		if sc.FaultSide == "toserver" {
			fp = toServer
		}
		switch sc.Fault {
		case "stall":
			fp.StallAt, fp.StallFor = sc.FaultAt, 5*timeout
		case "close":
			fp.BreakAt = sc.FaultAt
		case "eof":
			fp.BreakAt, fp.BreakErr = sc.FaultAt, errEOF()
		case "corrupt":
			fp.CorruptAt = sc.FaultAt
		}
		g0 := simrt.GoroutineCount()
		ds := diagnostic.NewService(diagnostic.NewConfig(), discard{}, discard{})
		ds.Open()
		a := agent.New(harness.ReadSide{P: toAgent}, toServer)
		h := &echoHandler{a: a, batch: len(sc.Msgs) > 0 && sc.Msgs[0].Batch}
		a.Handler = h
		if err := a.Start(); err != nil {
			verdict = Fail("harness/setup", "agent: %v", err)
			return
		}
		agentDone := false
		go func() { agentErr = a.Wait(); agentDone = true }()
		// the owner's side of the abort protocol, as UDFNode implements it: the callback returns only once the
		// owner has stopped writing to In()
		abortedCh := make(chan struct{})
		var feeder sync.WaitGroup
		s := udf.NewServer("task", "node", bufio.NewReader(toServer), toAgent, ds.NewKapacitorHandler().WithNodeContext("udf"), timeout, func() {
			aborted = true
			close(abortedCh)
			feeder.Wait()
		}, func() {})
		started := time.Now()
		if err := s.Start(); err != nil {
			verdict = Fail("harness/setup", "server: %v", err)
			return
		}
		benign := sc.Fault == ""
		// handshake like UDFNode does; a failed handshake ends the node (nothing is fed)
		handshake := true
		// Under an injected fault a handshake request may never be answered while keepalives still flow (the request
		// itself was damaged and the agent ignored it); Server has no per-request timeout, so the owner gives up
		// after a while and aborts - that is the harness's decision, not an oracle.
		call := func(what string, f func() error) error {
			var err error
			fin := false
			go func() { err = f(); fin = true }()
			if benign {
				done := simrt.Expect("handshake "+what, 3_000_000, 20*timeout)
				simrt.Park("c19.handshake", func() bool { return fin })
				done()
				return err
			}
			deadline := time.Now().Add(20 * timeout)
			for !fin && time.Now().Before(deadline) {
				time.Sleep(timeout / 4)
			}
			if !fin {
				simrt.Count("obs.handshake_unanswered_under_fault")
				s.Abort(fmt.Errorf("owner gave up on the %s request", what))
				simrt.Park("c19.handshake.abort", func() bool { return fin })
				if err == nil {
					err = fmt.Errorf("%s unanswered", what)
				}
			}
			return err
		}
		if err := call("Info", func() error { _, e := s.Info(); return e }); err != nil {
			if benign {
				verdict = Fail("handshake", "Info: %v", err)
				return
			}
			handshake = false
		}
		if handshake {
			if err := call("Init", func() error { return s.Init(nil) }); err != nil {
				if benign {
					verdict = Fail("handshake", "Init: %v", err)
					return
				}
				handshake = false
			}
		}
		readerDone := false
		go func() {
			for m := range s.Out() {
				got = append(got, c19Canon(m))
			}
			readerDone = true
		}()
		snapDone := false
		go func() {
			defer func() { snapDone = true }()
			for _, b := range sc.Snapshots {
				if err := s.Restore(b); err != nil {
					if benign {
						snapErr = "Restore: " + err.Error()
					}
					return
				}
				out, err := s.Snapshot()
				if err != nil {
					if benign {
						snapErr = "Snapshot: " + err.Error()
					}
					return
				}
				if !bytes.Equal(out, b) && !(len(out) == 0 && len(b) == 0) {
					snapErr = fmt.Sprintf("snapshot returned %x, the UDF had been given %x", out, b)
					return
				}
			}
		}()
		// feed the data (exactly UDFNode.runUDF's writer: wg.Add, then select on In() and the aborted channel)
		feeder.Add(1)
		func() {
			defer feeder.Done()
			if !handshake || aborted {
				// (UDFNode itself does not look at the aborted channel before its first send; that window is C05's,
				// which runs the real UDFNode. Here the server is driven directly.)
				return
			}
			for _, m := range sc.Msgs {
				select {
				case s.In() <- m.build():
				case <-abortedCh:
					return
				}
				if sc.FastKA && sc.Fault == "" {
					// sleep until the keepalive ticker's next tick: both wake at the same virtual instant and the
					// scheduler decides how the keepalive frame and the next data frame meet on the wire
					iv := timeout / 2
					time.Sleep(iv - time.Since(started)%iv)
				}
			}
		}()
		simrt.Fair()
		if benign {
			done := simrt.Expect("snapshot requests return", 3_000_000, 10*timeout)
			simrt.Park("c19.snap", func() bool { return snapDone })
			done()
		} else {
			// a broken or corrupted stream may leave a request unanswered while keepalives still flow; the owner then
			// gives up the way a stopping node does (UDFNode.stopUDF): Abort, which must release everything
			waited := 0
			for !snapDone && !aborted && waited < 30 {
				time.Sleep(time.Second)
				waited++
			}
			if !snapDone && !aborted {
				done := simrt.Expect("Server.Abort", 3_000_000, 10*timeout)
				s.Abort(fmt.Errorf("owner gives up"))
				done()
			}
			done := simrt.Expect("pending requests return after abort", 3_000_000, 10*timeout)
			simrt.Park("c19.snap", func() bool { return snapDone })
			done()
		}
		done := simrt.Expect("Server.Stop", 3_000_000, 10*timeout)
		stopErr = s.Stop()
		done()
		done = simrt.Expect("output channel closes", 3_000_000, 10*timeout)
		simrt.Park("c19.reader", func() bool { return readerDone })
		done()
		if benign {
			done = simrt.Expect("agent terminates", 3_000_000, 10*timeout)
			simrt.Park("c19.agent", func() bool { return agentDone })
			done()
		}
		simrt.WaitIdle()
		// goroutines of the server must be gone (the agent's may linger when its peer broke the stream)
		for _, p := range simrt.LiveSince(g0) {
			if strings.Contains(p.Name, "udf/server.go") {
				leaked = append(leaked, p)
			}
		}
	})
	shape := map[string]interface{}{"fault": sc.Fault, "fault_side": sc.FaultSide}
	if v, bad := WorldVerdict(res, false); bad {
		v.Shape = shape
		return v
	}
	if verdict.Class != "" {
		return verdict
	}
	if len(leaked) > 0 {
		v := Fail("goroutine-leak", "after Stop returned, goroutines of the UDF server are still alive: %v", leaked)
		v.Shape = shape
		return v
	}
	if sc.Fault == "" {
		if stopErr != nil {
			return Fail("benign/error", "no fault was injected but the server reports: %v", stopErr)
		}
		if agentErr != nil {
			return Fail("benign/agent-error", "no fault was injected but the agent reports: %v", agentErr)
		}
		if aborted {
			return Fail("benign/aborted", "no fault was injected (delays stay below the keepalive timeout) but the server aborted")
		}
		if snapErr != "" {
			return Fail("snapshot", "%s", snapErr)
		}
		if len(got) != len(want) {
			return Fail("roundtrip/count", "%d messages sent, %d came back\nwant %v\ngot  %v", len(want), len(got), want, got)
		}
		for i := range want {
			if got[i] != want[i] {
				return Fail("roundtrip/changed", "message #%d changed across the UDF boundary\nsent: %s\ngot:  %s", i, want[i], got[i])
			}
		}
		return Pass()
	}
	// faults: only an unchanged prefix may be delivered (corruption of the byte stream may also be detected later or not at all by protobuf;
	// a corrupted message that still decodes is the peer's data, so for "corrupt" only framing safety is required)
	if sc.Fault != "corrupt" {
		if len(got) > len(want) {
			v := Fail("fault/invented", "%d messages sent, %d delivered after a %s", len(want), len(got), sc.Fault)
			v.Shape = shape
			return v
		}
		for i := range got {
			if got[i] != want[i] {
				v := Fail("fault/changed", "after a %s at byte %d (%s) message #%d was delivered changed\nsent: %s\ngot:  %s", sc.Fault, sc.FaultAt, sc.FaultSide, i, want[i], got[i])
				v.Shape = shape
				return v
			}
		}
		if snapErr != "" && strings.HasPrefix(snapErr, "snapshot returned") {
			v := Fail("snapshot", "%s", snapErr)
			v.Shape = shape
			return v
		}
	}
	return Pass()
}

type discard struct{}

func (discard) Write(p []byte) (int, error) { return len(p), nil }

func errEOF() error { return fmt.Errorf("EOF") }

func init() {
	Register(&Prop{
		ID:  "C19",
		Run: runC19,
		Rule: "case = 1-8/20 points or buffered batches (all four field types incl. int64 beyond 2^53 and extreme floats, strings with quotes/commas/newlines/unicode/NUL, empty tag sets, dimension subsets, byName) sent through the real udf.Server to an in-process echo agent built on the real udf/agent over two simulated byte pipes whose reads return seeded fragments and seeded virtual delays, with 0-2 concurrent Restore+Snapshot round trips and keepalives (every 5s, or every 200ms with the sender pausing as long between messages so that keepalives and data frames meet on the wire); a third of the batches announce size 0; " +
			"in the faulty configuration one pipe stalls beyond the keepalive timeout, breaks, ends, or has one byte flipped at a seeded offset; non-trivial = every case; distinct = distinct (scenario, interleaving signature) pairs",
		Real:        []string{"udf.Server (writeData/readData/handleResponse, requests, keepalive, Stop/Abort)", "udf/agent Agent (readLoop/writeLoop/forwardResponses), WriteMessage/ReadMessage framing, protobuf messages", "edge messages, models"},
		Stub:        []string{"SimPipe: in-simulation byte stream with seeded fragmentation, delay, stall, break, EOF and corruption (replaces the unix socket / process pipes)", "echo handler on the real agent", "UDFNode is not in this check's path (Server driven directly through In()/Out())"},
		Assumptions: []string{"NaN field values are not generated (they do not compare equal)", "after byte corruption only framing safety (no panic, no hang, no leak) is required: a corrupted message that still decodes is the peer's data", "delays in the benign configuration stay below the 10s keepalive timeout"},
	})
}
