package props

import (
	"fmt"
	"math"
	"sort"
	"strings"
	"sync"
	"time"

	"github.com/influxdata/kapacitor"
	"github.com/influxdata/kapacitor/zz_sim/harness"
	"github.com/influxdata/kapacitor/zz_sim/simrt"
)

// C11 — aggregations over a window equal their mathematical definition.

type c11Point struct {
	T   int     `json:"t_s"`
	I   int64   `json:"i"`
	F   float64 `json:"f"`
	Tag string  `json:"tag"`
}

type c11Group struct {
	Float  []bool     `json:"float_per_window"` // field kind per window
	Points []c11Point `json:"points"`
}

type c11Scenario struct {
	Fn         string     `json:"fn"`
	Arg        int        `json:"arg"` // percentile / top n / movingAverage window
	As         string     `json:"as"`
	PointTimes bool       `json:"use_point_times"`
	Stream     bool       `json:"stream_form"`
	PeriodS    int        `json:"period_s"`
	WinS       int        `json:"window_period_s"`                       // the window period: 10 (tumbling), 3 (gaps, empty batches occur) or 20 (overlapping: every point is seen by two windows)
	Through    string     `json:"batches_pass_through,omitempty"`        // batch form: a node between window and aggregation that forwards batches message by message (their size is then not announced)
	Sparse     bool       `json:"first_point_lacks_the_field,omitempty"` // every group starts with a point that does not carry the aggregated field
	Groups     []c11Group `json:"groups"`
	Script     string     `json:"script"`
	Config     string     `json:"config"`
}

var c11Fns = []string{"count", "sum", "mean", "median", "mode", "min", "max", "first", "last", "spread", "stddev", "distinct", "percentile", "top", "bottom", "elapsed", "difference", "cumulativeSum", "movingAverage"}

func c11Gen(c *Ctx) *c11Scenario {
	g := c.G
	sc := &c11Scenario{Fn: c11Fns[g.Intn(len(c11Fns))], PeriodS: 10, WinS: []int{10, 10, 3, 20}[g.Intn(4)]}
	switch sc.Fn {
	case "percentile":
		sc.Arg = []int{50, 0, 1, 25, 75, 99, 100}[g.Intn(7)]
	case "top", "bottom":
		sc.Arg = g.Range(1, 4)
	case "movingAverage":
		sc.Arg = g.Range(1, 4)
	}
	if g.Bool() {
		sc.As = []string{"x", "x", "v"}[g.Intn(3)] // (also the name of the aggregated field itself)
	}
	switch sc.Fn {
	case "min", "max", "first", "last", "percentile", "mode", "median":
		sc.PointTimes = g.Bool()
	case "count", "sum", "mean", "spread", "stddev":
		sc.PointTimes = g.Chance(1, 3) // "Aggregation functions always use the batch time."
	case "top", "bottom", "distinct":
		sc.PointTimes = g.Chance(1, 3) // the selected points keep their times; the batch they come in is still the window's
	}
	switch sc.Fn {
	case "count", "sum", "mean", "min", "max":
		sc.Stream = g.Chance(1, 4)
	}
	if !sc.Stream && g.Chance(1, 3) {
		sc.Through = []string{"|where(lambda: \"v\" == \"v\")", "|eval(lambda: 1).as('one').keep()"}[g.Intn(2)]
	}
	sc.Sparse = g.Chance(1, 4)
	ng := g.Range(1, 3)
	ivals := []int64{0, 1, -1, 2, 3, 5, 7, 7, 42, -1000000000000000, 1000000000000000}
	fvals := []float64{0, 1.5, -2.25, 3, 3, 1e300, -1e300, 0.1, 1e-9, 42}
	for i := 0; i < ng; i++ {
		var gr c11Group
		nw := g.Range(1, 4)
		for w := 0; w < nw; w++ {
			isF := g.Bool()
			if sc.WinS > sc.PeriodS && w > 0 {
				isF = gr.Float[0] // overlapping windows: one field kind per group, so that no batch mixes kinds
			}
			gr.Float = append(gr.Float, isF)
			n := []int{0, 1, 2, 3, 5, 8}[g.Intn(6)]
			t := w*sc.PeriodS + g.Intn(3)
			for k := 0; k < n && t < (w+1)*sc.PeriodS; k++ {
				p := c11Point{T: t, I: ivals[g.Intn(len(ivals))], F: fvals[g.Intn(len(fvals))], Tag: []string{"a", "b", "c"}[g.Intn(3)]}
				gr.Points = append(gr.Points, p)
				if sc.Stream && g.Chance(1, 2) {
					// runs of equal-time points for the stream form
				} else if sc.Stream && g.Chance(1, 6) && t > w*sc.PeriodS+1 {
					t -= 2 // a late point: it is a run of its own, not part of the run that is open when it arrives
				} else {
					t++
				}
			}
		}
		sc.Groups = append(sc.Groups, gr)
	}
	var sb strings.Builder
	sb.WriteString("stream\n    |from().measurement('m').groupBy('g')\n")
	if !sc.Stream {
		fmt.Fprintf(&sb, "    |window().period(%ds).every(%ds).align()\n", sc.WinS, sc.PeriodS)
		if sc.Through != "" {
			sb.WriteString("    " + sc.Through + "\n")
		}
	}
	switch sc.Fn {
	case "percentile":
		fmt.Fprintf(&sb, "    |percentile('v', %d.0)", sc.Arg)
	case "top", "bottom":
		fmt.Fprintf(&sb, "    |%s(%d, 'v')", sc.Fn, sc.Arg)
	case "movingAverage":
		fmt.Fprintf(&sb, "    |movingAverage('v', %d)", sc.Arg)
	case "elapsed":
		sb.WriteString("    |elapsed('v', 1s)")
	default:
		fmt.Fprintf(&sb, "    |%s('v')", sc.Fn)
	}
	if sc.As != "" {
		fmt.Fprintf(&sb, ".as('%s')", sc.As)
	}
	if sc.PointTimes {
		sb.WriteString(".usePointTimes()")
	}
	sb.WriteString("\n    |log().prefix('AGG')\n")
	sc.Script = sb.String()
	return sc
}

// c11SparseT: the time of the field-less point a group starts with.
func c11SparseT(gr c11Group) int {
	if t := gr.Points[0].T - 1; t > 0 {
		return t
	}
	return 0
}

type c11Val struct {
	isF bool
	i   int64
	f   float64
	t   int    // seconds
	tag string // the point's tag k (not a group dimension)
}

func (v c11Val) fl() float64 {
	if v.isF {
		return v.f
	}
	return float64(v.i)
}

type c11Out struct {
	T     int         // output time (s); -1 = do not care
	Val   interface{} // int64 | float64
	Multi bool        // value belongs to a multi-point output (order within the window is compared as a multiset)
	Tag   string      // top/bottom: the tag k of the selected point, "" where the value occurs more than once in the batch
	Scale float64     // magnitude of the batch's inputs (float tolerance)
}

func c11Less(a, b c11Val) bool {
	if a.isF {
		return a.f < b.f
	}
	return a.i < b.i
}

func c11Value(v c11Val) interface{} {
	if v.isF {
		return v.f
	}
	return v.i
}

// reference: the InfluxQL definition of fn over the values of one batch (or run); tmax is the batch end.
func (sc *c11Scenario) reference(vals []c11Val, tmax int) []c11Out {
	out := sc.reference0(vals, tmax)
	scale := 0.0
	for _, v := range vals {
		scale = math.Max(scale, math.Abs(v.fl()))
	}
	for i := range out {
		out[i].Scale = scale
	}
	return out
}

func (sc *c11Scenario) reference0(vals []c11Val, tmax int) []c11Out {
	n := len(vals)
	isF := n > 0 && vals[0].isF
	sorted := append([]c11Val(nil), vals...)
	sort.SliceStable(sorted, func(a, b int) bool { return c11Less(sorted[a], sorted[b]) })
	selT := func(v c11Val) int {
		if sc.PointTimes {
			return v.t
		}
		return tmax
	}
	sumI, sumF := int64(0), 0.0
	for _, v := range vals {
		sumI += v.i
		sumF += v.fl()
	}
	switch sc.Fn {
	case "count":
		return []c11Out{{T: tmax, Val: int64(n)}}
	case "sum":
		if n == 0 {
			return []c11Out{{T: tmax, Val: 0.0}}
		}
		if isF {
			return []c11Out{{T: tmax, Val: sumF}}
		}
		return []c11Out{{T: tmax, Val: sumI}}
	}
	if n == 0 {
		return nil
	}
	switch sc.Fn {
	case "mean":
		return []c11Out{{T: tmax, Val: sumF / float64(n)}}
	case "median":
		var m float64
		if n%2 == 1 {
			m = sorted[n/2].fl()
		} else {
			m = (sorted[n/2-1].fl() + sorted[n/2].fl()) / 2
		}
		return []c11Out{{T: -1, Val: m}}
	case "mode":
		best, bestN, tie := sorted[0], 0, false
		for i := 0; i < n; {
			j := i
			for j < n && !c11Less(sorted[i], sorted[j]) {
				j++
			}
			if j-i > bestN {
				best, bestN, tie = sorted[i], j-i, false
			} else if j-i == bestN {
				tie = true
			}
			i = j
		}
		if tie {
			return []c11Out{{T: -1, Val: nil}} // a tie: any of the most frequent values is acceptable (checked separately)
		}
		return []c11Out{{T: -1, Val: c11Value(best)}}
	case "min":
		return []c11Out{{T: selT(sorted[0]), Val: c11Value(sorted[0])}}
	case "max":
		m := sorted[n-1]
		for _, v := range sorted { // earliest among equals
			if !c11Less(v, m) && !c11Less(m, v) {
				m = v
				break
			}
		}
		return []c11Out{{T: selT(m), Val: c11Value(m)}}
	case "first":
		f := vals[0]
		for _, v := range vals {
			if v.t < f.t {
				f = v
			}
		}
		return []c11Out{{T: selT(f), Val: c11Value(f)}}
	case "last":
		l := vals[0]
		for _, v := range vals {
			if v.t >= l.t {
				l = v
			}
		}
		return []c11Out{{T: selT(l), Val: c11Value(l)}}
	case "spread":
		if isF {
			return []c11Out{{T: tmax, Val: sorted[n-1].f - sorted[0].f}}
		}
		return []c11Out{{T: tmax, Val: sorted[n-1].i - sorted[0].i}}
	case "stddev":
		if n < 2 {
			return []c11Out{{T: tmax, Val: "absent-or-nan"}}
		}
		mean := sumF / float64(n)
		ss := 0.0
		for _, v := range vals {
			ss += (v.fl() - mean) * (v.fl() - mean)
		}
		return []c11Out{{T: tmax, Val: math.Sqrt(ss / float64(n-1))}}
	case "percentile":
		i := int(math.Floor(float64(n)*float64(sc.Arg)/100.0+0.5)) - 1
		if i < 0 || i >= n {
			return nil
		}
		return []c11Out{{T: -1, Val: c11Value(sorted[i])}}
	case "distinct":
		var out []c11Out
		for i, v := range sorted {
			if i == 0 || c11Less(sorted[i-1], v) {
				out = append(out, c11Out{T: -1, Val: c11Value(v), Multi: true})
			}
		}
		return out
	case "top", "bottom":
		k := sc.Arg
		if k > n {
			k = n
		}
		var out []c11Out
		for i := 0; i < k; i++ {
			v := sorted[i]
			if sc.Fn == "top" {
				v = sorted[n-1-i]
			}
			tag := v.tag
			for _, o := range vals {
				if o.tag != v.tag && !c11Less(o, v) && !c11Less(v, o) {
					tag = "" // the same value with another tag: which of the two points is selected is not defined
				}
			}
			out = append(out, c11Out{T: -1, Val: c11Value(v), Multi: true, Tag: tag})
		}
		return out
	case "elapsed":
		var out []c11Out
		for i := 1; i < n; i++ {
			out = append(out, c11Out{T: vals[i].t, Val: int64(vals[i].t - vals[i-1].t)})
		}
		return out
	case "difference":
		var out []c11Out
		for i := 1; i < n; i++ {
			if isF {
				out = append(out, c11Out{T: vals[i].t, Val: vals[i].f - vals[i-1].f})
			} else {
				out = append(out, c11Out{T: vals[i].t, Val: vals[i].i - vals[i-1].i})
			}
		}
		return out
	case "cumulativeSum":
		var out []c11Out
		ci, cf := int64(0), 0.0
		for _, v := range vals {
			ci += v.i
			cf += v.f
			if isF {
				out = append(out, c11Out{T: v.t, Val: cf})
			} else {
				out = append(out, c11Out{T: v.t, Val: ci})
			}
		}
		return out
	case "movingAverage":
		var out []c11Out
		for i := sc.Arg - 1; i < n; i++ {
			s := 0.0
			for j := i - sc.Arg + 1; j <= i; j++ {
				s += vals[j].fl()
			}
			out = append(out, c11Out{T: vals[i].t, Val: s / float64(sc.Arg)})
		}
		return out
	}
	return nil
}

// c11Scale is the magnitude of the inputs of the batch being compared: floating-point results of different but valid
// algorithms (running sums, different summation order) may differ by a few ulps of the largest input.
func c11Same(want, got interface{}, c11Scale float64) bool {
	switch w := want.(type) {
	case int64:
		g, ok := got.(int64)
		return ok && g == w
	case float64:
		g, ok := got.(float64)
		if !ok {
			return false
		}
		if w == g {
			return true
		}
		d := math.Abs(w - g)
		return d <= 1e-9*math.Max(c11Scale, math.Max(math.Abs(w), math.Abs(g)))
	}
	return false
}

func runC11(c *Ctx) Verdict {
	sc := c11Gen(c)
	c.Scenario = sc
	cfg := c.WorldConfig()
	if cfg.Strategy == simrt.StratStarve {
		cfg.StarveRole = []string{"node.go", "c11.go"}[c.G.Intn(2)]
	}
	cfg.MaxSteps = 3_000_000
	sc.Config = fmt.Sprintf("%v p=%.2f knobs=%v", cfg.Strategy, cfg.SwitchProb, cfg.Knobs)
	var verdict Verdict
	var d *harness.Daemon
	res := c.World(cfg, func() {
		var err error
		d, err = harness.NewDaemon(harness.DaemonOpts{})
		if err != nil {
			verdict = Fail("harness/setup", "daemon: %v", err)
			return
		}
		task, err := d.Define("AG", sc.Script, kapacitor.StreamTask, []kapacitor.DBRP{{Database: "db", RetentionPolicy: "rp"}})
		if err != nil {
			verdict = Fail("harness/setup", "define: %v\n%s", err, sc.Script)
			return
		}
		if _, err := d.TM.StartTask(task); err != nil {
			verdict = Fail("harness/setup", "start: %v", err)
			return
		}
		var wg sync.WaitGroup
		for gi, gr := range sc.Groups {
			wg.Add(1)
			go func(gi int, gr c11Group) {
				defer wg.Done()
				if sc.Sparse && len(gr.Points) > 0 {
					// a point of the series without the aggregated field (sparse fields): it contributes nothing
					d.WriteLine("db", "rp", fmt.Sprintf("m,g=g%d,k=z other=1i %d\n", gi, int64(c11SparseT(gr))*int64(time.Second)))
				}
				for _, p := range gr.Points {
					w := p.T / sc.PeriodS
					val := fmt.Sprintf("%di", p.I)
					if gr.Float[w] {
						val = fmt.Sprintf("%g", p.F)
						if !strings.ContainsAny(val, ".e") {
							val += ".0"
						}
					}
					line := fmt.Sprintf("m,g=g%d,k=%s v=%s %d\n", gi, p.Tag, val, int64(p.T)*int64(time.Second))
					if code := d.WriteLine("db", "rp", line); code != 204 {
						verdict = Fail("harness/setup", "write rejected %d: %s", code, line)
					}
				}
				// a far later point closes the last window / run (its own window or run is never complete)
				d.WriteLine("db", "rp", fmt.Sprintf("m,g=g%d,k=z v=1i %d\n", gi, int64(100000)*int64(time.Second)))
			}(gi, gr)
		}
		done := simrt.Expect("writers finish", 3_000_000, time.Hour)
		wg.Wait()
		done()
		simrt.Fair()
		simrt.WaitIdle()
	})
	if v, bad := WorldVerdict(res, false); bad {
		return v
	}
	if verdict.Class != "" {
		return verdict
	}
	field := sc.Fn
	if sc.As != "" {
		field = sc.As
	}
	shape := map[string]interface{}{"fn": sc.Fn, "stream_form": sc.Stream}
	// observed per group: list of (time, value) in emission order, with batch boundaries flattened per window end
	type obs struct {
		t    int
		val  interface{}
		win  int // window index derived from the batch tmax or the point time
		tag  string
		tmax int // time of the batch the value came in (0: it came as a point)
	}
	got := map[string][]obs{}
	for _, o := range d.Sinks.Get("AGG") {
		if o.Copy != nil {
			g := o.Copy.Tags["g"]
			v, ok := o.Copy.Fields[field]
			if !ok {
				return Fail("output/field-name", "the output of %s has fields %v, expected a field named %q", sc.Fn, simrt.Keys(o.Copy.Fields), field)
			}
			if o.Copy.Name != "m" {
				return Fail("output/name", "output measurement is %q", o.Copy.Name)
			}
			got[g] = append(got[g], obs{t: int(o.Copy.TimeNs / 1e9), val: v})
		} else {
			g := o.BCopy.Tags["g"]
			for _, p := range o.BCopy.Points {
				v, ok := p.Fields[field]
				if !ok {
					return Fail("output/field-name", "the output of %s has fields %v, expected a field named %q", sc.Fn, simrt.Keys(p.Fields), field)
				}
				got[g] = append(got[g], obs{t: int(p.TimeNs / 1e9), val: v, win: int(o.BCopy.TMaxNs/1e9) - 1, tag: p.Tags["k"], tmax: int(o.BCopy.TMaxNs / 1e9)})
			}
		}
	}
	trivial := true
	for gi, gr := range sc.Groups {
		g := fmt.Sprintf("g%d", gi)
		var want []c11Out
		var wantWin []int
		if sc.Stream {
			// runs of equal-time points; a run is due once a later point arrived
			i := 0
			for i < len(gr.Points) {
				j := i
				var vals []c11Val
				for j < len(gr.Points) && gr.Points[j].T == gr.Points[i].T {
					p := gr.Points[j]
					vals = append(vals, c11Val{isF: gr.Float[p.T/sc.PeriodS], i: p.I, f: p.F, t: p.T, tag: p.Tag})
					j++
				}
				// a run whose field kind changes in the middle (window boundary inside? no: same T) is homogeneous
				for _, o := range sc.reference(vals, gr.Points[i].T) {
					want = append(want, o)
					wantWin = append(wantWin, gr.Points[i].T)
				}
				i = j
			}
		} else {
			// the batches the aggregation sees are the windows the window node emits (C03's reference model):
			// one emission per arrival at or after the next edge, none for steps skipped during a silence
			wm := &c03Scenario{PeriodS: sc.WinS, EveryS: sc.PeriodS, Align: true}
			var ts []int
			shift := 0
			if sc.Sparse && len(gr.Points) > 0 {
				ts, shift = append(ts, c11SparseT(gr)), 1 // the window node sees the field-less point like any other
			}
			for _, p := range gr.Points {
				ts = append(ts, p.T)
			}
			ts = append(ts, 100000) // the closing sentinel
			for _, win := range wm.model(ts) {
				if win.T > 99990 {
					continue
				}
				var vals []c11Val
				for _, id := range win.Ids {
					if id < shift {
						continue // it does not carry the field
					}
					p := gr.Points[id-shift]
					vals = append(vals, c11Val{isF: gr.Float[p.T/sc.PeriodS], i: p.I, f: p.F, t: p.T, tag: p.Tag})
				}
				for _, o := range sc.reference(vals, win.T) {
					want = append(want, o)
					wantWin = append(wantWin, win.T/sc.PeriodS-1)
				}
			}
		}
		if len(want) > 0 {
			trivial = false
		}
		gl := got[g]
		// drop outputs caused by the closing sentinel point (window(s) at or after t=100000)
		var gg []obs
		for _, o := range gl {
			if o.t < 99990 {
				gg = append(gg, o)
			}
		}
		describe := func() string {
			var ws, gs []string
			for i, o := range want {
				ws = append(ws, fmt.Sprintf("w%d:t=%d:%v", wantWin[i], o.T, o.Val))
			}
			for _, o := range gg {
				gs = append(gs, fmt.Sprintf("t=%d:%T:%v", o.t, o.val, o.val))
			}
			return fmt.Sprintf("group %s points %+v (float per window %v)\n  reference: %v\n  emitted:   %v\n  script: %s", g, gr.Points, gr.Float, ws, gs, strings.ReplaceAll(sc.Script, "\n", " "))
		}
		// stddev of fewer than two points and mode ties are compared loosely
		wi := 0
		gi2 := 0
		for wi < len(want) {
			w := want[wi]
			if s, ok := w.Val.(string); ok && s == "absent-or-nan" {
				// either nothing is emitted for that window or a NaN
				if gi2 < len(gg) && gg[gi2].t == w.T {
					if f, ok := gg[gi2].val.(float64); ok && (math.IsNaN(f) || f == 0) {
						gi2++
					}
				}
				wi++
				continue
			}
			if gi2 >= len(gg) {
				v := Fail("aggregate/missing", "%s: an expected output is missing.\n%s", sc.Fn, describe())
				v.Shape = shape
				return v
			}
			if w.Multi {
				// compare this window's multi-point output as a multiset
				k := wi
				for k < len(want) && want[k].Multi && wantWin[k] == wantWin[wi] {
					k++
				}
				cnt := k - wi
				if gi2+cnt > len(gg) {
					v := Fail("aggregate/missing", "%s: an expected output is missing.\n%s", sc.Fn, describe())
					v.Shape = shape
					return v
				}
				for b := 0; b < cnt; b++ {
					if end := (wantWin[wi] + 1) * sc.PeriodS; gg[gi2+b].tmax != 0 && gg[gi2+b].tmax != end {
						v := Fail("aggregate/time", "%s: the batch computed over the window ending at %ds is stamped %ds (usePointTimes=%v applies to the points in it).\n%s", sc.Fn, end, gg[gi2+b].tmax, sc.PointTimes, describe())
						v.Shape = shape
						return v
					}
				}
				used := make([]bool, cnt)
				for a := wi; a < k; a++ {
					found := false
					for b := 0; b < cnt; b++ {
						if !used[b] && c11Same(want[a].Val, gg[gi2+b].val, want[a].Scale) && (want[a].Tag == "" || want[a].Tag == gg[gi2+b].tag) {
							used[b], found = true, true
							break
						}
					}
					if !found {
						v := Fail("aggregate/value", "%s: window %d lacks the value %v (carrying tag k=%q of the point it was selected from).\n%s", sc.Fn, wantWin[wi], want[a].Val, want[a].Tag, describe())
						v.Shape = shape
						return v
					}
				}
				wi, gi2 = k, gi2+cnt
				continue
			}
			o := gg[gi2]
			if w.Val == nil {
				// mode tie: the emitted value must be one of the window's values (not checked further)
			} else if !c11Same(w.Val, o.val, w.Scale) {
				cls := "aggregate/value"
				if fmt.Sprintf("%T", w.Val) != fmt.Sprintf("%T", o.val) {
					cls = "aggregate/type"
				}
				v := Fail(cls, "%s: output #%d is %T %v, the definition gives %T %v.\n%s", sc.Fn, gi2, o.val, o.val, w.Val, w.Val, describe())
				v.Shape = shape
				return v
			}
			if w.T >= 0 && o.t != w.T {
				v := Fail("aggregate/time", "%s: output #%d is stamped t=%ds, expected t=%ds (usePointTimes=%v).\n%s", sc.Fn, gi2, o.t, w.T, sc.PointTimes, describe())
				v.Shape = shape
				return v
			}
			wi++
			gi2++
		}
		if gi2 < len(gg) {
			v := Fail("aggregate/extra", "%s: %d more output(s) than the definition gives.\n%s", sc.Fn, len(gg)-gi2, describe())
			v.Shape = shape
			return v
		}
	}
	if trivial {
		c.Trivial = true
	}
	return Pass()
}

func init() {
	Register(&Prop{
		ID:  "C11",
		Run: runC11,
		Rule: "case = one of 19 aggregation functions (with percentile argument, top/bottom n, movingAverage window, as(), usePointTimes()) below a window emitted every 10s with period 10s (tumbling), 3s (gaps, empty batches) or 20s (overlapping: every point is aggregated twice) (or, for count/sum/mean/min/max, directly on the stream with runs of equal-time points and an occasional late point) (as() may also name the aggregated field itself; round 3: in a third of the batch cases the batches pass through a where/eval that forwards them message by message without announcing their size; in a quarter every group starts with a point that lacks the aggregated field; top/bottom/distinct also with usePointTimes, the batch they emit must still carry the window's end) over 1-3 groups, each with 1-4 windows of 0-8 values that are int or float per window (duplicates, negatives, magnitudes up to 1e15 / 1e300, field kind changing between windows), one concurrent writer per group; " +
			"non-trivial = the definition gives at least one output; distinct = distinct (scenario, interleaving signature) pairs",
		Real:        []string{"InfluxQLNode (BeginBatch/BatchPoint/EndBatch, stream mode, streaming transformations), generated reduce contexts (influxql.gen.go) on the influxdb query reducers", "WindowNode, FromNode/groupBy, LogNode, TaskMaster, httpd write endpoint"},
		Stub:        []string{"log sink below the aggregation node"},
		Assumptions: []string{"reference values follow the InfluxQL definitions (nearest-rank percentile, sample standard deviation, median of an even count = mean of the two middle values); floats are compared with relative tolerance 1e-9, integers exactly, types exactly", "mode ties and stddev of fewer than two values are compared loosely; top/bottom/distinct are compared as multisets per window; holtWinters is not covered", "the value/typing quantifier is sampled by the seeded generator, the schedule quantifier (group interleaving, back-pressure) is explored by the simulator"},
	})
}
