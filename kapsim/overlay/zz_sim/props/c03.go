package props

import (
	"fmt"
	"strings"
	"sync"
	"time"

	"github.com/influxdata/kapacitor"
	"github.com/influxdata/kapacitor/zz_sim/harness"
	"github.com/influxdata/kapacitor/zz_sim/simrt"
)

// C03 — a window holds exactly the points of its period, emitted on schedule.

type c03Scenario struct {
	PeriodS     int     `json:"period_s"`
	EveryS      int     `json:"every_s"`
	Align       bool    `json:"align"`
	FillPeriod  bool    `json:"fill_period"`
	PeriodCount int     `json:"period_count"`
	EveryCount  int     `json:"every_count"`
	Groups      [][]int `json:"groups"` // per group: non-decreasing timestamps (s)
	Script      string  `json:"script"`
	SlowUs      int     `json:"slow_sink_us"`
	Config      string  `json:"config"`
}

func c03Gen(c *Ctx) *c03Scenario {
	g := c.G
	sc := &c03Scenario{}
	if g.Chance(1, 4) {
		sc.PeriodCount = g.Range(1, 5)
		sc.EveryCount = g.Range(1, 4)
	} else {
		sc.PeriodS = []int{5, 1, 2, 3, 7, 10, 60}[g.Intn(7)]
		sc.EveryS = []int{5, 0, 1, 2, 3, 7, 10, 60}[g.Intn(8)]
		sc.Align = sc.EveryS > 0 && g.Bool()
	}
	sc.FillPeriod = g.Chance(1, 3)
	ng := g.Range(1, 4)
	maxPts := 14
	if c.Thorough() {
		maxPts = 40
	}
	for i := 0; i < ng; i++ {
		n := g.Range(1, maxPts)
		t := g.Intn(12)
		var ts []int
		for j := 0; j < n; j++ {
			switch g.Intn(8) {
			case 0, 1: // repeated timestamp
			case 2, 3, 4:
				t++
			case 5:
				t += g.Range(2, 6)
			case 6: // burst then silence longer than most periods: the buffer drains completely
				t += g.Range(8, 70)
			default:
				t += g.Range(1, 3)
			}
			ts = append(ts, t)
		}
		sc.Groups = append(sc.Groups, ts)
	}
	if !c.FaultFree && g.Chance(1, 3) {
		sc.SlowUs = []int{1, 300, 20000}[g.Intn(3)]
	}
	var sb strings.Builder
	sb.WriteString("stream\n    |from().measurement('m').groupBy('g')\n    |window()\n")
	if sc.PeriodCount > 0 {
		fmt.Fprintf(&sb, "        .periodCount(%d)\n        .everyCount(%d)\n", sc.PeriodCount, sc.EveryCount)
	} else {
		fmt.Fprintf(&sb, "        .period(%ds)\n        .every(%ds)\n", sc.PeriodS, sc.EveryS)
		if sc.Align {
			sb.WriteString("        .align()\n")
		}
	}
	if sc.FillPeriod {
		sb.WriteString("        .fillPeriod()\n")
	}
	sb.WriteString("    |log().prefix('W')\n")
	sc.Script = sb.String()
	return sc
}

type c03Win struct {
	T   int // end time (s); for count windows the time of the last point
	Ids []int
}

func (w c03Win) String() string { return fmt.Sprintf("T=%d%v", w.T, w.Ids) }

// truncS is time.Truncate for whole seconds: multiples of e are counted from Go's zero time (year 1),
// which lies 62135596800 s before the Unix epoch, as package time documents.
func truncS(t, e int) int {
	if e <= 0 {
		return t
	}
	return t - int((int64(t)+62135596800)%int64(e))
}

// c03Model is the list-based reference: it keeps every point and computes what each emission must contain.
func (sc *c03Scenario) model(ts []int) []c03Win {
	var out []c03Win
	if sc.PeriodCount > 0 {
		next := sc.EveryCount
		if sc.FillPeriod {
			next = sc.PeriodCount
		}
		for k := 1; k <= len(ts); k++ {
			if k == next {
				next += sc.EveryCount
				lo := k - sc.PeriodCount
				if lo < 0 {
					lo = 0
				}
				w := c03Win{T: ts[k-1]}
				for i := lo; i < k; i++ {
					w.Ids = append(w.Ids, i)
				}
				out = append(out, w)
			}
		}
		return out
	}
	P, E := sc.PeriodS, sc.EveryS
	if len(ts) == 0 {
		return nil
	}
	t0 := ts[0]
	var next int
	if sc.FillPeriod {
		next = t0 + P
		if sc.Align {
			// aligned with every and later than the end of the first full period
			tr := truncS(next, E)
			if tr <= next {
				tr += E
			}
			next = tr
		}
	} else {
		next = t0 + E
		if sc.Align {
			next = truncS(next, E)
		}
	}
	for k, t := range ts {
		if E == 0 {
			// right aligned (t-P, t], including the triggering point and everything received before it
			if t >= next {
				w := c03Win{T: t}
				for i := 0; i <= k; i++ {
					if ts[i] > t-P && ts[i] <= t {
						w.Ids = append(w.Ids, i)
					}
				}
				out = append(out, w)
				next = t
			}
			continue
		}
		if t >= next {
			// left aligned [T-P, T) of what was received before the triggering point
			w := c03Win{T: next}
			for i := 0; i < k; i++ {
				if ts[i] >= next-P && ts[i] < next {
					w.Ids = append(w.Ids, i)
				}
			}
			out = append(out, w)
			// the next window is due one 'every' after the point that triggered this one
			next = t + E
			if sc.Align {
				next = truncS(next, E)
			}
		}
	}
	return out
}

func runC03(c *Ctx) Verdict {
	sc := c03Gen(c)
	c.Scenario = sc
	cfg := c.WorldConfig()
	if cfg.Strategy == simrt.StratStarve {
		cfg.StarveRole = []string{"node.go", "c03.go"}[c.G.Intn(2)]
	}
	cfg.MaxSteps = 3_000_000
	sc.Config = fmt.Sprintf("%v p=%.2f knobs=%v", cfg.Strategy, cfg.SwitchProb, cfg.Knobs)
	var verdict Verdict
	var d *harness.Daemon
	res := c.World(cfg, func() {
		var err error
		d, err = harness.NewDaemon(harness.DaemonOpts{})
		if err != nil {
			verdict = Fail("harness/setup", "daemon: %v", err)
			return
		}
		d.Sinks.Delay = func(string) {
			if sc.SlowUs > 0 {
				time.Sleep(time.Duration(sc.SlowUs) * time.Microsecond)
				simrt.Count("fault.sink.slow")
			}
		}
		task, err := d.Define("W", sc.Script, kapacitor.StreamTask, []kapacitor.DBRP{{Database: "db", RetentionPolicy: "rp"}})
		if err != nil {
			verdict = Fail("harness/setup", "define: %v\n%s", err, sc.Script)
			return
		}
		if _, err := d.TM.StartTask(task); err != nil {
			verdict = Fail("harness/setup", "start: %v", err)
			return
		}
		var wg sync.WaitGroup
		for gi, ts := range sc.Groups {
			wg.Add(1)
			go func(gi int, ts []int) {
				defer wg.Done()
				for i, t := range ts {
					line := fmt.Sprintf("m,g=g%d s=%di %d\n", gi, i, int64(t)*int64(time.Second))
					if code := d.WriteLine("db", "rp", line); code != 204 {
						verdict = Fail("harness/setup", "write rejected %d", code)
					}
				}
			}(gi, ts)
		}
		if !c.FaultFree {
			wg.Add(1)
			go func() {
				defer wg.Done()
				other, err := d.Define("X", "stream\n    |from().measurement('other')\n    |log().prefix('X')\n", kapacitor.StreamTask, []kapacitor.DBRP{{Database: "db", RetentionPolicy: "rp"}})
				if err == nil {
					if _, err := d.TM.StartTask(other); err == nil {
						simrt.Count("fault.task.churn")
						d.TM.StopTask("X")
					}
				}
			}()
		}
		done := simrt.Expect("writers finish", 3_000_000, time.Hour)
		wg.Wait()
		done()
		simrt.Fair()
		simrt.WaitIdle()
	})
	if v, bad := WorldVerdict(res, false); bad {
		return v
	}
	if verdict.Class != "" {
		return verdict
	}
	for _, e := range d.Sinks.Errs {
		return Fail("node-error", "the window task reported an error: %s", e)
	}
	got := map[string][]c03Win{}
	for _, o := range d.Sinks.Get("W") {
		if o.BCopy == nil {
			return Fail("not-a-batch", "window() emitted something that is not a batch")
		}
		w := c03Win{T: int(o.BCopy.TMaxNs / 1e9)}
		for _, p := range o.BCopy.Points {
			s, ok := p.Fields["s"].(int64)
			if !ok {
				return Fail("corrupt", "window point without its identity field: %+v", p)
			}
			w.Ids = append(w.Ids, int(s))
			if p.Tags["g"] != o.BCopy.Tags["g"] {
				return Fail("foreign-group", "window of group %v contains a point of group %v", o.BCopy.Tags, p.Tags)
			}
		}
		got[o.BCopy.Tags["g"]] = append(got[o.BCopy.Tags["g"]], w)
	}
	shape := map[string]interface{}{"count_window": sc.PeriodCount > 0, "every_zero": sc.PeriodCount == 0 && sc.EveryS == 0, "align": sc.Align, "fill_period": sc.FillPeriod}
	trivial := true
	for gi, ts := range sc.Groups {
		want := sc.model(ts)
		if len(want) > 0 {
			trivial = false
		}
		g := got[fmt.Sprintf("g%d", gi)]
		if fmt.Sprint(g) != fmt.Sprint(want) {
			cls := "window/contents"
			if len(g) != len(want) {
				cls = "window/schedule"
			} else {
				for i := range g {
					if g[i].T != want[i].T {
						cls = "window/schedule"
					}
				}
			}
			v := Fail(cls, "group g%d with timestamps %v (period=%ds every=%ds align=%v fillPeriod=%v periodCount=%d everyCount=%d):\n  emitted:   %v\n  reference: %v", gi, ts, sc.PeriodS, sc.EveryS, sc.Align, sc.FillPeriod, sc.PeriodCount, sc.EveryCount, g, want)
			v.Shape = shape
			return v
		}
	}
	if trivial {
		c.Trivial = true
	}
	return Pass()
}

func init() {
	Register(&Prop{
		ID:  "C03",
		Run: runC03,
		Rule: "case = window() with period and every from {0,1,2,3,5,7,10,60}s (every<period, =period, >period, =0), align and fillPeriod, or a count window (periodCount 1-5, everyCount 1-4), over 1-4 groups each with 1-14/40 non-decreasing timestamps (repeats, steps, and silences of 8-70s that drain the ring buffer before it wraps), one concurrent writer per group, a slow sink and unrelated task churn in the faulty configuration; " +
			"non-trivial = the reference expects at least one window; distinct = distinct (scenario, interleaving signature) pairs",
		Real:        []string{"WindowNode (windowByTime.Point, windowTimeBuffer insert/purge/points, windowByCount)", "FromNode/groupBy, LogNode, TaskMaster, httpd write endpoint, edges"},
		Stub:        []string{"log sink directly below window()"},
		Assumptions: []string{"window logic runs on one goroutine and uses data time only: the simulator explores group interleaving, back-pressure and churn, while the timestamp/period quantifier is sampled by the seeded generator", "after a silence the next window is due one 'every' after the point that triggered the previous emission (the rule stated in window.go's own comment); contents are always checked against the list of all points with time in [T-period, T) resp. (t-period, t]"},
	})
}
