package props

import (
	"encoding/json"
	"fmt"
	"os"
	"sort"
	"strings"
	"sync"
	"time"

	"github.com/influxdata/kapacitor"
	"github.com/influxdata/kapacitor/alert"
	alertservice "github.com/influxdata/kapacitor/services/alert"
	"github.com/influxdata/kapacitor/zz_sim/harness"
	"github.com/influxdata/kapacitor/zz_sim/simrt"
	bolt "go.etcd.io/bbolt"
)

// C08 — alert state survives restart: no lost or phantom level after recovery.

type c08Task struct {
	ID     string `json:"id"`
	Named  string `json:"named_topic,omitempty"`
	Anon   bool   `json:"anon_topic"`
	SCO    bool   `json:"state_changes_only"`
	Bare   bool   `json:"no_handler_on_named_topic,omitempty"` // nothing but the task itself ever touches the named topic
	Script string `json:"script"`
}

type c08Scenario struct {
	Tasks      []c08Task `json:"tasks"`
	Hosts      [][]int   `json:"hosts"` // value sequence per host (levels via thresholds 20/50/80)
	CrashAt    []int     `json:"crash_boundaries"`
	Boundaries int       `json:"boundaries_in_base_run"`
	IDByTag    bool      `json:"id_uses_a_tag_outside_the_group_by,omitempty"`
	// V1: the storage the daemon first opens on was written by a version that kept topic states in the version 1 layout
	// (one record per topic in the alert store): topic -> host index -> level.  The first open migrates it.
	V1     map[string]map[int]alert.Level `json:"states_left_in_v1_layout,omitempty"`
	Config string                         `json:"config"`
}

// id of the alert for host h: the host tag alone, or prefixed with a tag that is not a group-by dimension
func (sc *c08Scenario) id(h int) string {
	if sc.IDByTag {
		return fmt.Sprintf("east/h%d", h)
	}
	return fmt.Sprintf("h%d", h)
}

func c08Level(v int) alert.Level {
	switch {
	case v > 80:
		return alert.Critical
	case v > 50:
		return alert.Warning
	case v > 20:
		return alert.Info
	}
	return alert.OK
}

func c08Gen(c *Ctx) *c08Scenario {
	g := c.G
	sc := &c08Scenario{IDByTag: g.Chance(1, 3)}
	nt := g.Range(1, 2)
	for i := 0; i < nt; i++ {
		t := c08Task{ID: fmt.Sprintf("A%d", i)}
		switch g.Intn(3) {
		case 0:
			t.Named = fmt.Sprintf("named%d", i)
			t.Bare = g.Bool()
		case 1:
			t.Anon = true
		default:
			t.Named = fmt.Sprintf("named%d", i)
			t.Anon = true
			t.Bare = g.Bool()
		}
		t.SCO = g.Bool()
		var sb strings.Builder
		idT := "{{ index .Tags \"host\" }}"
		if sc.IDByTag {
			idT = "{{ index .Tags \"dc\" }}/{{ index .Tags \"host\" }}"
		}
		sb.WriteString("stream\n    |from().measurement('m').groupBy('host')\n    |alert()\n        .id('" + idT + "')\n        .message('{{ .ID }}/{{ index .Fields \"s\" }}')\n        .info(lambda: \"v\" > 20)\n        .warn(lambda: \"v\" > 50)\n        .crit(lambda: \"v\" > 80)")
		if t.SCO {
			sb.WriteString("\n        .stateChangesOnly()")
		}
		if t.Named != "" {
			fmt.Fprintf(&sb, "\n        .topic('%s')", t.Named)
		}
		if t.Anon {
			sb.WriteString("\n        .log('/dev/null')")
		}
		sb.WriteString("\n")
		t.Script = sb.String()
		sc.Tasks = append(sc.Tasks, t)
	}
	nh := g.Range(1, 3)
	maxPts := 8
	if c.Thorough() {
		maxPts = 14
	}
	for h := 0; h < nh; h++ {
		n := g.Range(2, maxPts)
		var vs []int
		for i := 0; i < n; i++ {
			vs = append(vs, []int{10, 30, 60, 90}[g.Intn(4)])
		}
		sc.Hosts = append(sc.Hosts, vs)
	}
	if g.Chance(1, 4) {
		sc.V1 = map[string]map[int]alert.Level{}
		for _, t := range sc.Tasks {
			for h := range sc.Hosts {
				if !g.Bool() {
					continue
				}
				// (the anonymous and the named topic of one node were left in agreement)
				l := []alert.Level{alert.Info, alert.Warning, alert.Critical}[g.Intn(3)]
				for _, tp := range t.topics() {
					if sc.V1[tp] == nil {
						sc.V1[tp] = map[int]alert.Level{}
					}
					sc.V1[tp][h] = l
				}
			}
		}
	}
	return sc
}

// initial is the level topic tp holds for host h before the first point of the scenario.
func (sc *c08Scenario) initial(tp string, h int) alert.Level {
	return sc.V1[tp][h] // OK when absent
}

func (t c08Task) topics() []string {
	var ts []string
	if t.Anon {
		ts = append(ts, "main:"+t.ID+":alert2")
	}
	if t.Named != "" {
		ts = append(ts, t.Named)
	}
	return ts
}

// c08Durable reads the persisted topic states straight from the Bolt file (independent of Kapacitor's code).
func c08Durable(path string) (map[string]map[string]alert.Level, error) {
	tmp := path + ".ro"
	b, err := os.ReadFile(path)
	if err != nil {
		return nil, err
	}
	if err := os.WriteFile(tmp, b, 0600); err != nil {
		return nil, err
	}
	defer os.Remove(tmp)
	db, err := bolt.Open(tmp, 0600, &bolt.Options{ReadOnly: true})
	if err != nil {
		return nil, err
	}
	defer db.Close()
	out := map[string]map[string]alert.Level{}
	err = db.View(func(tx *bolt.Tx) error {
		root := tx.Bucket([]byte("topic_states_store"))
		if root == nil {
			return nil
		}
		return root.ForEach(func(k, v []byte) error {
			if v != nil {
				return nil
			}
			tb := root.Bucket(k)
			m := map[string]alert.Level{}
			out[string(k)] = m
			return tb.ForEach(func(id, data []byte) error {
				if data == nil {
					return nil
				}
				var es struct {
					Level json.RawMessage `json:"level"`
				}
				if err := json.Unmarshal(data, &es); err != nil {
					return fmt.Errorf("topic %s id %s: %v", k, id, err)
				}
				var lv alert.Level
				s := strings.Trim(string(es.Level), "\"")
				switch s {
				case "OK", "0":
					lv = alert.OK
				case "INFO", "1":
					lv = alert.Info
				case "WARNING", "2":
					lv = alert.Warning
				case "CRITICAL", "3":
					lv = alert.Critical
				default:
					return fmt.Errorf("topic %s id %s: unknown level %s", k, id, es.Level)
				}
				m[string(id)] = lv
				return nil
			})
		})
	})
	return out, err
}

type c08Life struct {
	res      *simrt.Result
	acked    []int                               // per host: number of points acknowledged
	told     map[string]map[string][]alert.Level // topic -> id -> levels handed to the recording handler, in order
	copyPath string
	bounds   int
	openB    int                               // storage boundaries passed while the daemon opened (migrations, versions)
	preB     int                               // ... and before that, while the harness wrote what a previous version had left
	restored map[string]map[string]alert.Level // as reported by the alert service right after open
	final    map[string]map[string]alert.Level
	verdict  Verdict
	errs     []string
}

// c08Run executes one life of the daemon: open on path (""=fresh), start tasks, feed hosts from resume[], crash at boundary crashAt (0 = run to completion).
func c08Run(c *Ctx, sc *c08Scenario, cfg simrt.Config, path string, resume []int, crashAt int) *c08Life {
	life := &c08Life{told: map[string]map[string][]alert.Level{}, acked: append([]int(nil), resume...)}
	recs := map[string]*harness.RecHandler{}
	var topics []string
	for _, t := range sc.Tasks {
		topics = append(topics, t.topics()...)
	}
	var st *harness.SimStorage
	life.res = c.World(cfg, func() {
		var err error
		st, err = harness.NewSimStorage(path)
		if err != nil {
			life.verdict = Fail("harness/setup", "open store: %v", err)
			return
		}
		if path == "" && len(sc.V1) > 0 {
			dao, err := alertservice.NewTopicStateKV(st.Store(alertservice.AlertNameSpace))
			if err != nil {
				life.verdict = Fail("harness/setup", "v1 topic store: %v", err)
				return
			}
			for _, tp := range simrt.Keys(sc.V1) {
				ts := alertservice.TopicState{Topic: tp, EventStates: map[string]alertservice.EventState{}}
				for h, l := range sc.V1[tp] {
					ts.EventStates[sc.id(h)] = alertservice.EventState{Message: "from the previous version", Time: time.Unix(0, simrt.Epoch).Add(-time.Hour).UTC(), Level: l}
				}
				if err := dao.Put(ts); err != nil {
					life.verdict = Fail("harness/setup", "v1 topic store: %v", err)
					return
				}
			}
		}
		life.preB = st.Boundaries
		st.CrashAt = crashAt
		d, err := harness.NewDaemon(harness.DaemonOpts{Store: st, PersistTopics: true})
		if err != nil {
			life.verdict = Fail("restart/open", "the daemon cannot open on the storage as it stood at the crash: %v", err)
			return
		}
		life.openB = st.Boundaries
		// the three views of a topic (one id, all ids at or above a level, the topic's own level) are views of one state
		views := func(when string) {
			if life.verdict.Class != "" {
				return
			}
			for _, tp := range topics {
				max := alert.OK
				per := map[string]alert.Level{}
				for h := range sc.Hosts {
					if es, ok, _ := d.Alert.EventState(tp, sc.id(h)); ok {
						per[sc.id(h)] = es.Level
						if es.Level > max {
							max = es.Level
						}
					}
				}
				ts, ok, _ := d.Alert.TopicState(tp)
				if !ok {
					continue
				}
				if ts.Level != max {
					life.verdict = Fail("topic/views-disagree", "%s: topic %s reports level %v, the highest level among its ids is %v (%v)", when, tp, ts.Level, max, per)
					return
				}
				all, err := d.Alert.EventStates(tp, alert.OK)
				if err != nil {
					continue
				}
				for id, es := range all {
					if l, ok := per[id]; !ok || l != es.Level {
						life.verdict = Fail("topic/views-disagree", "%s: the event listing of topic %s shows id %s at %v, asked for on its own the id is at %v (known=%v)", when, tp, id, es.Level, l, ok)
						return
					}
				}
				for id, l := range per {
					if es, ok := all[id]; !ok || es.Level != l {
						life.verdict = Fail("topic/views-disagree", "%s: id %s of topic %s is at %v, the event listing of the topic shows %v (listed=%v)", when, id, tp, l, es.Level, ok)
						return
					}
				}
			}
		}
		// what the alert service restored, before any task runs
		life.restored = map[string]map[string]alert.Level{}
		for _, tp := range topics {
			m := map[string]alert.Level{}
			life.restored[tp] = m
			for h := range sc.Hosts {
				id := sc.id(h)
				if es, ok, _ := d.Alert.EventState(tp, id); ok {
					m[id] = es.Level
				}
			}
		}
		views("right after the daemon opened")
		bare := map[string]bool{}
		for _, t := range sc.Tasks {
			if t.Bare {
				bare[t.Named] = true
			}
		}
		for _, tp := range topics {
			if bare[tp] {
				continue // the topic only comes into existence with the first event the task collects on it
			}
			r := &harness.RecHandler{Name: tp}
			recs[tp] = r
			d.Alert.RegisterAnonHandler(tp, r)
		}
		for _, t := range sc.Tasks {
			kt, err := d.Define(t.ID, t.Script, kapacitor.StreamTask, []kapacitor.DBRP{{Database: "db", RetentionPolicy: "rp"}})
			if err != nil {
				life.verdict = Fail("harness/setup", "define: %v\n%s", err, t.Script)
				return
			}
			if _, err := d.TM.StartTask(kt); err != nil {
				life.verdict = Fail("harness/setup", "start: %v", err)
				return
			}
		}
		var wg sync.WaitGroup
		for h, vs := range sc.Hosts {
			wg.Add(1)
			go func(h int, vs []int) {
				defer wg.Done()
				for i := resume[h]; i < len(vs); i++ {
					line := fmt.Sprintf("m,host=h%d,dc=east v=%di,s=%di %d\n", h, vs[i], i, int64(time.Second)*int64(i+1))
					if code := d.WriteLine("db", "rp", line); code != 204 {
						return
					}
					life.acked[h] = i + 1
					// one point at a time: the next point is written once this one has been fully processed,
					// so that "the remaining data" after a crash is well defined
					simrt.WaitIdle()
					views(fmt.Sprintf("after point #%d of id %s (value %d)", i, sc.id(h), vs[i]))
					// the two topics of one node agree on an id as soon as the node has processed a point of it
					// (levels are a function of the point, so both must show this point's level)
					if life.verdict.Class == "" {
						for _, t := range sc.Tasks {
							if !t.Anon || t.Named == "" {
								continue
							}
							var lv [2]alert.Level
							for k, tp := range t.topics() {
								if es, ok, _ := d.Alert.EventState(tp, sc.id(h)); ok {
									lv[k] = es.Level
								}
							}
							if lv[0] != lv[1] {
								life.verdict = Fail("anon-named-disagree", "after the node of task %s had processed point #%d of id %s (value %d) its anonymous topic holds %v and its named topic %s holds %v", t.ID, i, sc.id(h), vs[i], lv[0], t.Named, lv[1])
							}
						}
					}
				}
			}(h, vs)
		}
		done := simrt.Expect("writers finish", 4_000_000, 2*time.Hour)
		wg.Wait()
		done()
		simrt.Fair()
		simrt.WaitIdle()
		views("at the end of the run")
		life.final = map[string]map[string]alert.Level{}
		for _, tp := range topics {
			m := map[string]alert.Level{}
			life.final[tp] = m
			for h := range sc.Hosts {
				id := sc.id(h)
				if es, ok, _ := d.Alert.EventState(tp, id); ok {
					m[id] = es.Level
				}
			}
		}
		life.errs = d.Sinks.Errs
	})
	for tp, r := range recs {
		m := map[string][]alert.Level{}
		life.told[tp] = m
		for _, e := range r.Events {
			m[e.ID] = append(m[e.ID], e.Level)
		}
	}
	if st != nil {
		life.bounds = st.Boundaries
		life.copyPath = st.CrashCopy
	}
	return life
}

// ---- an alert that inhibits another: the inhibition is part of the state a restart must bring back ----

type c08IStep struct {
	Which string `json:"to"` // a: the inhibiting alert's measurement, b: the inhibited one's
	V     int    `json:"v"`
}

type c08InhibitScenario struct {
	Kind       string     `json:"kind"`
	Steps      []c08IStep `json:"steps"`
	CrashAt    []int      `json:"crash_boundaries"`
	Boundaries int        `json:"boundaries_in_base_run"`
	Config     string     `json:"config"`
}

type c08ILife struct {
	res      *simrt.Result
	done     int // steps acknowledged
	copyPath string
	bounds   int
	final    map[string]alert.Level // topic -> level of id h0 (absent = OK)
	verdict  Verdict
}

const c08ScriptA = "stream\n    |from().measurement('ma').groupBy('host')\n    |alert()\n        .id('{{ index .Tags \"host\" }}')\n        .crit(lambda: \"v\" > 80)\n        .stateChangesOnly()\n        .inhibit('catb', 'host')\n        .topic('inhA')\n"
const c08ScriptB = "stream\n    |from().measurement('mb').groupBy('host')\n    |alert()\n        .id('{{ index .Tags \"host\" }}')\n        .category('catb')\n        .crit(lambda: \"v\" > 80)\n        .topic('inhB')\n"

func c08InhibitRun(c *Ctx, sc *c08InhibitScenario, cfg simrt.Config, path string, from, crashAt int) *c08ILife {
	life := &c08ILife{done: from}
	var st *harness.SimStorage
	life.res = c.World(cfg, func() {
		var err error
		st, err = harness.NewSimStorage(path)
		if err != nil {
			life.verdict = Fail("harness/setup", "open store: %v", err)
			return
		}
		st.CrashAt = crashAt
		d, err := harness.NewDaemon(harness.DaemonOpts{Store: st, PersistTopics: true})
		if err != nil {
			life.verdict = Fail("restart/open", "the daemon cannot open on the storage as it stood at the crash: %v", err)
			return
		}
		for _, t := range [][2]string{{"I0", c08ScriptA}, {"I1", c08ScriptB}} {
			kt, err := d.Define(t[0], t[1], kapacitor.StreamTask, []kapacitor.DBRP{{Database: "db", RetentionPolicy: "rp"}})
			if err != nil {
				life.verdict = Fail("harness/setup", "define: %v\n%s", err, t[1])
				return
			}
			if _, err := d.TM.StartTask(kt); err != nil {
				life.verdict = Fail("harness/setup", "start: %v", err)
				return
			}
		}
		for i := from; i < len(sc.Steps); i++ {
			stp := sc.Steps[i]
			line := fmt.Sprintf("m%s,host=h0 v=%di,s=%di %d\n", stp.Which, stp.V, i, int64(time.Second)*int64(i+1))
			if code := d.WriteLine("db", "rp", line); code != 204 {
				return
			}
			life.done = i + 1
			simrt.WaitIdle() // one point at a time
		}
		life.final = map[string]alert.Level{}
		for _, tp := range []string{"inhA", "inhB"} {
			if es, ok, _ := d.Alert.EventState(tp, "h0"); ok {
				life.final[tp] = es.Level
			}
		}
	})
	if st != nil {
		life.bounds, life.copyPath = st.Boundaries, st.CrashCopy
	}
	return life
}

func runC08Inhibit(c *Ctx) Verdict {
	g := c.G
	sc := &c08InhibitScenario{Kind: "an alert inhibits another"}
	n := g.Range(4, 12)
	for i := 0; i < n; i++ {
		sc.Steps = append(sc.Steps, c08IStep{Which: []string{"a", "b", "b"}[g.Intn(3)], V: []int{10, 90, 90}[g.Intn(3)]})
	}
	c.Scenario = sc
	cfg := c.WorldConfig()
	delete(cfg.Knobs, "MinimumEventBufferSize")
	delete(cfg.Knobs, "DefaultEventBufferSize")
	cfg.MaxSteps = 4_000_000
	sc.Config = fmt.Sprintf("%v p=%.2f", cfg.Strategy, cfg.SwitchProb)
	base := c08InhibitRun(c, sc, cfg, "", 0, 0)
	if v, bad := WorldVerdict(base.res, false); bad {
		return v
	}
	if base.verdict.Class != "" {
		return base.verdict
	}
	sc.Boundaries = base.bounds
	// the uninterrupted run follows the documentation: an event of the inhibited alert is dropped while the
	// inhibiting alert (same host) is not OK; otherwise it sets the topic's level
	lvl := func(v int) alert.Level {
		if v > 80 {
			return alert.Critical
		}
		return alert.OK
	}
	a, b, bNode := alert.OK, alert.OK, alert.OK
	for _, stp := range sc.Steps {
		if stp.Which == "a" {
			a = lvl(stp.V)
			continue
		}
		l := lvl(stp.V)
		emits := l != alert.OK || bNode != alert.OK
		bNode = l
		if emits && a == alert.OK {
			b = l
		}
	}
	if base.final["inhA"] != a || base.final["inhB"] != b {
		return Fail("uninterrupted/final-state", "without any crash the inhibiting alert's topic ends at %v and the inhibited one's at %v; the documented behaviour gives %v and %v (steps %+v)", base.final["inhA"], base.final["inhB"], a, b, sc.Steps)
	}
	if base.bounds == 0 {
		c.Trivial = true
		return Pass()
	}
	seen := map[int]bool{}
	for tries := 0; len(sc.CrashAt) < 8 && tries < 40; tries++ {
		bd := 1 + g.Intn(base.bounds)
		if !seen[bd] {
			seen[bd] = true
			sc.CrashAt = append(sc.CrashAt, bd)
		}
	}
	sort.Ints(sc.CrashAt)
	for _, bd := range sc.CrashAt {
		l1 := c08InhibitRun(c, sc, cfg, "", 0, bd)
		if l1.res.Status != simrt.StatusCrash {
			if v, bad := WorldVerdict(l1.res, false); bad {
				return v
			}
			c.Counters["obs.crash_boundary_not_reached"]++
			continue
		}
		durable, err := c08Durable(l1.copyPath)
		if err != nil {
			return Fail("durable/corrupt", "crash at boundary %d: the durable copy cannot be read: %v", bd, err)
		}
		cfg2 := cfg
		cfg2.Seed = cfg.Seed ^ uint64(bd)*0x9E3779B97F4A7C15
		// the step in flight at the crash (acknowledged, perhaps not yet processed) is written again, so that the
		// second life is a function of the storage and the remaining data
		resume := l1.done - 1
		if resume < 0 {
			resume = 0
		}
		l2 := c08InhibitRun(c, sc, cfg2, l1.copyPath, resume, 0)
		os.Remove(l1.copyPath)
		if v, bad := WorldVerdict(l2.res, false); bad {
			v.Detail = fmt.Sprintf("[second life after a crash at storage boundary %d of %d] ", bd, base.bounds) + v.Detail
			return v
		}
		if l2.verdict.Class != "" {
			return l2.verdict
		}
		// both alerts resume at the levels the storage holds (the inhibited alert's node too: what it had seen of
		// inhibited events is gone with the process), then the documented behaviour applies to the remaining data
		second := func(lazy bool) (alert.Level, alert.Level) {
			a, b := durable["inhA"]["h0"], durable["inhB"]["h0"]
			bNode, aSeen := b, false
			for _, stp := range sc.Steps[resume:] {
				if stp.Which == "a" {
					a, aSeen = lvl(stp.V), true
					continue
				}
				l := lvl(stp.V)
				emits := l != alert.OK || bNode != alert.OK
				bNode = l
				if emits && !(a != alert.OK && (aSeen || !lazy)) {
					b = l
				}
			}
			return a, b
		}
		wa, wb := second(false)
		if l2.final["inhA"] == wa && l2.final["inhB"] == wb {
			continue
		}
		// ... unless the inhibition only comes back with the inhibiting alert's first point after the restart
		la, lb := second(true)
		v := Fail("final-state", "crash at boundary %d of %d after %d acknowledged steps (storage: inhibiting alert %v, inhibited alert %v): the second life, fed steps #%d.., ends with the inhibiting alert's topic at %v and the inhibited one's at %v; resuming at the stored levels the documented behaviour ends at %v and %v (steps %+v)",
			bd, base.bounds, l1.done, durable["inhA"]["h0"], durable["inhB"]["h0"], resume, l2.final["inhA"], l2.final["inhB"], wa, wb, sc.Steps)
		v.Shape = map[string]interface{}{"inhibit": true, "explained_by_inhibition_returning_only_with_the_inhibiting_alerts_next_point": l2.final["inhA"] == la && l2.final["inhB"] == lb}
		if c.Report(v) {
			return v
		}
	}
	return c.Finish()
}

func runC08(c *Ctx) Verdict {
	if c.G.Chance(1, 8) {
		return runC08Inhibit(c)
	}
	sc := c08Gen(c)
	c.Scenario = sc
	cfg := c.WorldConfig()
	// the alert event queue drops on overflow by design; not in play here
	delete(cfg.Knobs, "MinimumEventBufferSize")
	delete(cfg.Knobs, "DefaultEventBufferSize")
	cfg.MaxSteps = 4_000_000
	sc.Config = fmt.Sprintf("%v p=%.2f knobs=%v", cfg.Strategy, cfg.SwitchProb, cfg.Knobs)
	zero := make([]int, len(sc.Hosts))

	// base run: no crash; gives the number of storage boundaries and the uninterrupted final state
	base := c08Run(c, sc, cfg, "", zero, 0)
	if v, bad := WorldVerdict(base.res, false); bad {
		return v
	}
	if base.verdict.Class != "" {
		return base.verdict
	}
	sc.Boundaries = base.bounds
	for _, t := range sc.Tasks {
		for _, tp := range t.topics() {
			for h := range sc.Hosts {
				if got, want := base.restored[tp][sc.id(h)], sc.initial(tp, h); got != want {
					return Fail("restore/level", "the storage left by the previous version holds level %v for topic %s id %s (version 1 layout); after the first start the alert service reports %v", want, tp, sc.id(h), got)
				}
			}
		}
	}
	// uninterrupted final state must be the level of each host's last point
	for _, t := range sc.Tasks {
		for _, tp := range t.topics() {
			for h, vs := range sc.Hosts {
				id := sc.id(h)
				want := c08Level(vs[len(vs)-1])
				got, ok := base.final[tp][id]
				sawNonOK := false
				for _, v := range vs {
					if c08Level(v) != alert.OK {
						sawNonOK = true
					}
				}
				if !ok && !sawNonOK && sc.initial(tp, h) == alert.OK {
					continue // never alerted: no event state
				}
				if got != want {
					return Fail("uninterrupted/final-state", "without any crash, topic %s id %s ends at %v but the last point's level is %v (values %v); node errors: %v", tp, id, got, want, vs, base.errs)
				}
			}
		}
	}
	if base.bounds == 0 {
		c.Trivial = true
		return Pass()
	}
	// crash positions: every boundary (thorough) or a seeded sample (quick)
	var positions []int
	if c.Thorough() || base.bounds <= 10 {
		for b := 1; b <= base.bounds; b++ {
			positions = append(positions, b)
		}
	} else {
		seen := map[int]bool{}
		// the first commits after the daemon has opened (the first event a topic ever stores) always, the rest sampled
		for b := base.openB + 1; b <= base.openB+6 && b <= base.bounds; b++ {
			seen[b] = true
			positions = append(positions, b)
		}
		for tries := 0; len(positions) < 12 && tries < 40; tries++ { // bounded: a replayed tape may be exhausted
			b := 1 + c.G.Intn(base.bounds)
			if !seen[b] {
				seen[b] = true
				positions = append(positions, b)
			}
		}
		for b := 1; len(positions) < 12 && b <= base.bounds; b++ {
			if !seen[b] {
				seen[b] = true
				positions = append(positions, b)
			}
		}
		sort.Ints(positions)
	}
	if base.preB > 0 {
		// (the boundaries passed while the harness prepared the previous version's storage are not moments of this daemon)
		kept := positions[:0]
		for _, b := range positions {
			if b > base.preB {
				kept = append(kept, b)
			}
		}
		positions = kept
	}
	sc.CrashAt = positions
	checkPos := func(b int) (Verdict, bool) {
		l1 := c08Run(c, sc, cfg, "", zero, b)
		if l1.res.Status != simrt.StatusCrash {
			if v, bad := WorldVerdict(l1.res, false); bad {
				return v, true
			}
			// the boundary was not reached in this execution (schedule differs after an earlier divergence): skip
			c.Counters["obs.crash_boundary_not_reached"]++
			return Verdict{}, false
		}
		durable, err := c08Durable(l1.copyPath)
		if err != nil {
			return Fail("durable/corrupt", "crash at boundary %d: the durable copy cannot be read: %v", b, err), true
		}
		cfg2 := cfg
		cfg2.Seed = cfg.Seed ^ uint64(b)*0x9E3779B97F4A7C15
		l2 := c08Run(c, sc, cfg2, l1.copyPath, l1.acked, 0)
		os.Remove(l1.copyPath)
		shape := map[string]interface{}{"crash_boundary_kind": []string{"after_commit", "before_commit"}[b%2]}
		if v, bad := WorldVerdict(l2.res, false); bad {
			v.Detail = fmt.Sprintf("[second life after a crash at storage boundary %d of %d] ", b, base.bounds) + v.Detail
			v.Shape = shape
			return v, true
		}
		if l2.verdict.Class != "" {
			l2.verdict.Detail = fmt.Sprintf("[crash at storage boundary %d of %d] ", b, base.bounds) + l2.verdict.Detail
			return l2.verdict, true
		}
		for _, t := range sc.Tasks {
			for _, tp := range t.topics() {
				for h, vs := range sc.Hosts {
					id := sc.id(h)
					// (0) the storage holds the level of the last point that was fully processed before the crash, give or
					// take the point in flight: points are written one at a time, so of host h's points everything before
					// #acked-1 has been processed completely, and at most #acked is under way
					dl := durable[tp][id]
					if b <= base.openB && len(sc.V1) > 0 {
						// the crash fell into the migration of the previous version's layout: the states are in the old
						// layout, the new one, or both; what counts is what the restarted service makes of it
						dl = sc.initial(tp, h)
					}
					allowed := map[alert.Level]bool{}
					for k := l1.acked[h] - 1; k <= l1.acked[h]+1; k++ {
						switch {
						case k <= 0:
							allowed[sc.initial(tp, h)] = true
						case k <= len(vs):
							allowed[c08Level(vs[k-1])] = true
						}
					}
					if !allowed[dl] {
						v := Fail("durable/stale", "crash at boundary %d: %d points of id %s (values %v) had been acknowledged, all but the last of them completely processed, yet the storage holds level %v for topic %s: a restart at this moment resumes the id at a level it left at least one fully processed event ago", b, l1.acked[h], id, vs, dl, tp)
						v.Shape = shape
						return v, true
					}
					// (1) restored level == last level the durable copy recorded (absent => OK)
					rl := l2.restored[tp][id]
					if dl != rl {
						v := Fail("restore/level", "crash at boundary %d: storage held level %v for topic %s id %s, the restarted alert service reports %v", b, dl, tp, id, rl)
						v.Shape = shape
						return v, true
					}
					// (2) final state: level of the last point processed after the restart, else the restored level
					want := rl
					processed := l1.acked[h] < len(vs)
					if processed {
						want = c08Level(vs[len(vs)-1])
					}
					got := l2.final[tp][id]
					if got != want {
						// the anonymous/named pair of one node reconcile through restoreEvent on the first point
						v := Fail("final-state", "crash at boundary %d: topic %s id %s ends at %v, an uninterrupted run of the remaining data (from point #%d, values %v) ends at %v; restored level was %v; node errors: %v", b, tp, id, got, l1.acked[h], vs, want, rl, l2.errs)
						v.Shape = shape
						return v, true
					}
					// (3) handlers: told of every level the ID ends in that differs from the last level told before the crash
					told1 := l1.told[tp][id]
					told2 := l2.told[tp][id]
					last := alert.OK
					if len(told1) > 0 {
						last = told1[len(told1)-1]
					}
					if got != last && !(t.Bare && tp == t.Named) {
						found := false
						for _, l := range told2 {
							if l == got {
								found = true
							}
						}
						if !found {
							v := Fail("handler/silent-miss", "crash at boundary %d: handlers of topic %s were last told %v for id %s before the crash; the id ends at %v after the restart but no handler was told so (told after restart: %v; restored level %v; state-changes-only=%v)", b, tp, last, id, got, told2, rl, t.SCO)
							v.Shape = map[string]interface{}{"crash_boundary_kind": shape["crash_boundary_kind"], "state_changes_only": t.SCO, "points_remaining_after_crash": len(vs) - l1.acked[h],
								"handlers_and_storage_agreed_at_crash": last == dl, "anon_and_named_agreed_at_crash": c08PairAgrees(t, durable, id)}
							return v, true
						}
					}
					// a recovery is announced in the second life only if the restored level was non-OK or a non-OK level was told first.
					// A node with both an anonymous and a named topic resumes from the anonymous topic's level if it
					// holds the id, else from the named topic's (AlertNode.restoreEvent), so the pair counts as one.
					nonOK := rl != alert.OK
					for _, other := range t.topics() {
						if l2.restored[other][id] != alert.OK {
							nonOK = true
						}
					}
					for _, l := range told2 {
						if l == alert.OK && !nonOK {
							v := Fail("handler/phantom-recovery", "crash at boundary %d: handlers of topic %s were told a recovery for id %s although the restored level was OK and no alert preceded it in the second life (told: %v)", b, tp, id, told2)
							v.Shape = shape
							return v, true
						}
						if l != alert.OK {
							nonOK = true
						} else {
							nonOK = false
						}
					}
				}
			}
			// anonymous and named topic of one node agree once the node has processed a point of the id
			if t.Anon && t.Named != "" {
				tps := t.topics()
				for h, vs := range sc.Hosts {
					id := sc.id(h)
					if l1.acked[h] < len(vs) && l2.final[tps[0]][id] != l2.final[tps[1]][id] {
						v := Fail("anon-named-disagree", "crash at boundary %d: after the restart the anonymous topic %s holds %v and the named topic %s holds %v for id %s", b, tps[0], l2.final[tps[0]][id], tps[1], l2.final[tps[1]][id], id)
						v.Shape = shape
						return v, true
					}
				}
			}
		}
		return Verdict{}, false
	}
	for _, b := range positions {
		if v, bad := checkPos(b); bad && c.Report(v) {
			return v
		}
	}
	return c.Finish()
}

// c08PairAgrees reports whether the two topics of one alert node held the same level for id in the durable copy.
func c08PairAgrees(t c08Task, durable map[string]map[string]alert.Level, id string) bool {
	tps := t.topics()
	if len(tps) < 2 {
		return true
	}
	return durable[tps[0]][id] == durable[tps[1]][id]
}

func init() {
	Register(&Prop{
		ID:  "C08",
		Run: runC08,
		Rule: "case = 1-2 alert tasks (named topic - with a recording handler or touched by nothing but the task -, anonymous topic via a handler, or both on one node; alert id from the group-by tag alone or together with a tag outside the group-by; with/without stateChangesOnly) x 1-3 alert IDs with seeded level sequences (2-8/14 points) processed one point at a time; a base run counts the storage transaction boundaries B, then the same seed is re-executed once per crash position (every boundary before/after each commit in thorough and when B<=10, else the first 6 after the daemon has opened and a seeded sample of 6 more): crash there, restart on a byte copy of the Bolt file, restart the tasks, feed the remaining data; " +
			"(round 3) in a quarter of the cases the daemon first opens on a storage in which a previous version left topic states in the version 1 layout (migrated on open; crashes inside the migration included); after every point, right after open and at the end the three views of each topic (one id, the event listing, the topic's level) must agree; " +
			"one case in eight instead runs a pair of alerts of which one inhibits the other's category (one id, 4-12 steps to either of them, one at a time), crashes at up to 8 sampled boundaries, writes the step in flight again and compares the final levels of both topics with the documented behaviour resumed at the stored levels; " +
			"non-trivial = the base run had at least one storage boundary; distinct = distinct (scenario, interleaving signatures) tuples",
		Real:        []string{"services/alert Service (Open/loadSavedTopicStates, Collect, persistEventState/clearHistory, restoreTopic, EventState, UpdateEvent)", "alert.Topics", "AlertNode (restoreEventState/restoreEvent, determineLevel, alertState)", "services/storage Bolt adapter + real bbolt file", "TaskMaster, httpd write endpoint, edges"},
		Stub:        []string{"harness StorageService wrapper: crash = abandon the world at a transaction boundary + byte copy of the Bolt file", "recording alert.Handler on every topic", "tasks are restarted by the harness (task_store restart is C14)", "durable levels are read back with bbolt directly, not through Kapacitor"},
		Assumptions: []string{"bbolt commit atomicity trusted; a crash between transactions leaves exactly the last committed state", "points are written one at a time (next point after the system went idle), so that the data remaining after a crash is well defined; points acknowledged but unprocessed at the crash are lost, which the property does not forbid", "noRecoveries and flapping are not used here (C01 covers them)"},
	})
}
