package props

import (
	"fmt"
	"os"
	"strings"
	"sync"
	"time"

	"github.com/influxdata/kapacitor"
	"github.com/influxdata/kapacitor/alert"
	"github.com/influxdata/kapacitor/zz_sim/harness"
	"github.com/influxdata/kapacitor/zz_sim/simrt"
)

// C01 — alert events follow the documented level/recovery state machine.

type c01Config struct {
	Info, Warn, Crit                int  `json:"info,warn,crit"` // thresholds ("v" > x), 0 = level not configured
	InfoReset, WarnReset, CritReset int  // ("v" < x), 0 = none
	SCO                             bool `json:"state_changes_only"`
	SCOIntervalS                    int  `json:"state_changes_only_interval_s"`
	NoRecoveries                    bool `json:"no_recoveries"`
	History                         int  `json:"history"`
	FlappingNever                   bool `json:"flapping_with_unreachable_thresholds"`
	Fields                          bool `json:"level_id_duration_fields"`
	Batch                           bool `json:"batch_form"`
	BatchWinS                       int  `json:"batch_window_s,omitempty"`
	All                             bool `json:"all"`
	// ResetField: the reset conditions read the field "r" instead of "v".  SplitFields: warn reads "wv" and crit reads "cv",
	// fields that some points do not carry; a condition over an absent field does not hold.
	ResetField  bool `json:"resets_on_another_field"`
	SplitFields bool `json:"levels_on_separate_sparse_fields"`
}

type c01Point struct {
	T  int `json:"t_s"`
	V  int `json:"v"`
	R  int `json:"r,omitempty"`
	WV int `json:"wv,omitempty"` // 0 = the point does not carry the field
	CV int `json:"cv,omitempty"`
}

// of returns the value the condition of level l reads from p, and whether p carries it.
func (cf *c01Config) of(l alert.Level, p c01Point) (int, bool) {
	if cf.SplitFields {
		switch l {
		case alert.Warning:
			return p.WV, p.WV != 0
		case alert.Critical:
			return p.CV, p.CV != 0
		}
	}
	return p.V, true
}

func (cf *c01Config) levelField(l alert.Level) string {
	if cf.SplitFields {
		switch l {
		case alert.Warning:
			return "wv"
		case alert.Critical:
			return "cv"
		}
	}
	return "v"
}

func (cf *c01Config) resetField() string {
	if cf.ResetField {
		return "r"
	}
	return "v"
}

type c01Scenario struct {
	Cfg    c01Config    `json:"alert"`
	Hosts  [][]c01Point `json:"hosts"`
	Script string       `json:"script"`
	SlowUs int          `json:"slow_handler_us"`
	Config string       `json:"config"`
}

func c01Gen(c *Ctx) *c01Scenario {
	g := c.G
	sc := &c01Scenario{}
	cf := &sc.Cfg
	// thresholds strictly increasing info < warn < crit
	cf.Crit = 80
	if g.Chance(3, 4) {
		cf.Warn = 70
	}
	if g.Chance(3, 4) {
		cf.Info = 60
	}
	if g.Chance(1, 6) {
		cf.Crit = 0
		if cf.Warn == 0 {
			cf.Warn = 70
		}
	}
	if g.Chance(1, 2) { // the documented reset configuration, level by level
		if cf.Info > 0 && g.Bool() {
			cf.InfoReset = 50
		}
		if cf.Warn > 0 && g.Bool() {
			cf.WarnReset = 60
		}
		if cf.Crit > 0 && g.Bool() {
			cf.CritReset = 70
		}
	}
	cf.SCO = g.Bool()
	if cf.SCO && g.Bool() {
		cf.SCOIntervalS = []int{2, 3, 5}[g.Intn(3)]
	}
	cf.NoRecoveries = g.Chance(1, 4)
	if g.Chance(1, 3) {
		cf.History = []int{2, 3, 5}[g.Intn(3)]
	}
	cf.FlappingNever = g.Chance(1, 4)
	cf.Fields = g.Bool()
	cf.Batch = g.Chance(1, 4)
	if cf.Batch {
		cf.All = g.Bool()
		// in the batch form the alert's state moves once per batch: every point of a batch is held back by the reset
		// condition of the level the ID had when the batch arrived (half of the batch cases keep their resets)
		if g.Chance(1, 3) {
			cf.InfoReset, cf.WarnReset, cf.CritReset = 0, 0, 0
		}
		cf.BatchWinS = []int{2, 2, 4}[g.Intn(3)]
		cf.SCOIntervalS = 0
	} else {
		cf.ResetField = (cf.InfoReset+cf.WarnReset+cf.CritReset) > 0 && g.Chance(1, 3)
		cf.SplitFields = g.Chance(1, 5)
	}
	nh := g.Range(1, 3)
	maxPts := 8
	if c.Thorough() {
		maxPts = 14
	}
	vals := []int{47, 56, 61, 62, 64, 73, 85, 10, 95, 71, 59}
	for h := 0; h < nh; h++ {
		n := g.Range(1, maxPts)
		t := 0
		var pts []c01Point
		for i := 0; i < n; i++ {
			t += []int{1, 1, 2, 4}[g.Intn(4)]
			p := c01Point{T: t, V: vals[g.Intn(len(vals))]}
			if cf.ResetField {
				p.R = vals[g.Intn(len(vals))]
			}
			if cf.SplitFields {
				if g.Chance(2, 3) {
					p.WV = vals[g.Intn(len(vals))]
				}
				if g.Chance(2, 3) {
					p.CV = vals[g.Intn(len(vals))]
				}
			}
			pts = append(pts, p)
		}
		sc.Hosts = append(sc.Hosts, pts)
	}
	if !c.FaultFree && g.Chance(1, 3) {
		sc.SlowUs = []int{1, 500, 50000}[g.Intn(3)]
	}
	var sb strings.Builder
	sb.WriteString("stream\n    |from().measurement('m').groupBy('host')\n")
	if cf.Batch {
		// one batch per 2s of data time; every point of a host lies in exactly one tumbling window
		fmt.Fprintf(&sb, "    |window().period(%ds).every(%ds).align()\n", cf.BatchWinS, cf.BatchWinS)
	}
	sb.WriteString("    |alert()\n        .id('{{ index .Tags \"host\" }}')\n        .message('{{ .ID }}')\n")
	if cf.Info > 0 {
		fmt.Fprintf(&sb, "        .info(lambda: \"%s\" > %d)\n", cf.levelField(alert.Info), cf.Info)
	}
	if cf.InfoReset > 0 {
		fmt.Fprintf(&sb, "        .infoReset(lambda: \"%s\" < %d)\n", cf.resetField(), cf.InfoReset)
	}
	if cf.Warn > 0 {
		fmt.Fprintf(&sb, "        .warn(lambda: \"%s\" > %d)\n", cf.levelField(alert.Warning), cf.Warn)
	}
	if cf.WarnReset > 0 {
		fmt.Fprintf(&sb, "        .warnReset(lambda: \"%s\" < %d)\n", cf.resetField(), cf.WarnReset)
	}
	if cf.Crit > 0 {
		fmt.Fprintf(&sb, "        .crit(lambda: \"%s\" > %d)\n", cf.levelField(alert.Critical), cf.Crit)
	}
	if cf.CritReset > 0 {
		fmt.Fprintf(&sb, "        .critReset(lambda: \"%s\" < %d)\n", cf.resetField(), cf.CritReset)
	}
	if cf.SCO {
		if cf.SCOIntervalS > 0 {
			fmt.Fprintf(&sb, "        .stateChangesOnly(%ds)\n", cf.SCOIntervalS)
		} else {
			sb.WriteString("        .stateChangesOnly()\n")
		}
	}
	if cf.NoRecoveries {
		sb.WriteString("        .noRecoveries()\n")
	}
	if cf.History > 0 {
		fmt.Fprintf(&sb, "        .history(%d)\n", cf.History)
	}
	if cf.FlappingNever {
		sb.WriteString("        .flapping(0.99, 1.0)\n")
	}
	if cf.All {
		sb.WriteString("        .all()\n")
	}
	if cf.Fields {
		sb.WriteString("        .levelField('lvl')\n        .idField('aid')\n        .durationField('dur')\n        .levelTag('lvltag')\n")
	}
	sb.WriteString("        .topic('t1')\n    |log().prefix('OUT')\n")
	sc.Script = sb.String()
	return sc
}

// ---- reference model, written from the documentation in pipeline/alert.go ----

func (cf *c01Config) matches(l alert.Level, p c01Point) bool {
	v, ok := cf.of(l, p)
	if !ok {
		return false
	}
	switch l {
	case alert.Info:
		return cf.Info > 0 && v > cf.Info
	case alert.Warning:
		return cf.Warn > 0 && v > cf.Warn
	case alert.Critical:
		return cf.Crit > 0 && v > cf.Crit
	}
	return false
}

func (cf *c01Config) resetPasses(l alert.Level, p c01Point) (configured, pass bool) {
	v := p.V
	if cf.ResetField {
		v = p.R
	}
	switch l {
	case alert.Info:
		return cf.InfoReset > 0, v < cf.InfoReset
	case alert.Warning:
		return cf.WarnReset > 0, v < cf.WarnReset
	case alert.Critical:
		return cf.CritReset > 0, v < cf.CritReset
	}
	return false, true
}

// level: the highest severity whose condition holds; once in a state, it can only be lowered if that state's reset holds.
func (cf *c01Config) level(cur alert.Level, v c01Point) alert.Level {
	highest := alert.OK
	for l := alert.Critical; l > alert.OK; l-- {
		if cf.matches(l, v) {
			highest = l
			break
		}
	}
	if highest >= cur {
		return highest
	}
	if configured, pass := cf.resetPasses(cur, v); configured && !pass {
		return cur
	}
	return highest
}

type c01Event struct {
	Level alert.Level
	TimeS int
	DurS  int
}

func (e c01Event) String() string { return fmt.Sprintf("%v@%ds(dur %ds)", e.Level, e.TimeS, e.DurS) }

// model returns the events one alert ID must produce for its point sequence (stream form).
func (cf *c01Config) model(pts []c01Point) []c01Event {
	var out []c01Event
	cur := alert.OK
	leftOK := 0
	lastTriggered := -1 << 40
	for _, p := range pts {
		nl := cf.level(cur, p)
		changed := nl != cur
		prev := cur
		cur = nl
		expired := !changed && cf.SCOIntervalS > 0 && p.T-lastTriggered >= cf.SCOIntervalS
		if cf.SCO && !changed && !expired {
			continue
		}
		if nl == alert.OK && !changed {
			continue
		}
		lastTriggered = p.T
		if prev == alert.OK {
			leftOK = p.T
		}
		if cf.NoRecoveries && nl == alert.OK {
			continue
		}
		out = append(out, c01Event{nl, p.T, p.T - leftOK})
	}
	return out
}

// batchModel: one decision per tumbling window of 2s or 4s [Nk, Nk+N): level = highest (or lowest with all()) of the window's points.
// Without all() a non-OK event is triggered by the first point of the window that reaches the window's level: the
// event carries that point's time, and its duration counts from the triggering point of the episode's first event.
// TimeS = -1 where the statement does not say which point's time an event carries (recoveries, all()).
func (cf *c01Config) batchModel(pts []c01Point) []c01Event {
	var out []c01Event
	cur := alert.OK
	leftOK := -1
	i := 0
	for i < len(pts) {
		w := pts[i].T / cf.BatchWinS
		hi, lo := alert.OK, alert.Critical
		hiT := -1
		for i < len(pts) && pts[i].T/cf.BatchWinS == w {
			l := cf.level(cur, pts[i])
			if l > hi || hiT < 0 {
				hi, hiT = l, pts[i].T
			}
			if l < lo {
				lo = l
			}
			i++
		}
		nl := hi
		if cf.All {
			nl = lo
		}
		changed := nl != cur
		prev := cur
		cur = nl
		if cf.SCO && !changed { // no interval in the batch form here
			continue
		}
		if nl == alert.OK && !changed {
			continue
		}
		ev := c01Event{Level: nl, TimeS: -1, DurS: -1}
		if !cf.All && nl != alert.OK {
			ev.TimeS = hiT
			if prev == alert.OK || leftOK < 0 {
				leftOK = hiT
			}
			ev.DurS = hiT - leftOK
		}
		if nl == alert.OK {
			leftOK = -1
		}
		if cf.NoRecoveries && nl == alert.OK {
			continue
		}
		out = append(out, ev)
	}
	return out
}

// ---- flapping: hysteresis between the high and the low threshold ----
//
// pipeline/alert.go: "if the percentage of state changes goes above the high threshold, the alert enters a flapping
// state. The alert remains in the flapping state until the percentage of state changes goes below the low threshold",
// computed "similar to Nagios", i.e. with weights between 0.8 (oldest) and 1.2 (newest) per possible change. The
// reference does not reproduce the weights: from the number c of changes among the last `history` levels it only
// concludes what holds for every weighting in that range, allowing the count to be off by one change.
type c01FlapScenario struct {
	Kind   string `json:"kind"`
	Levels []int  `json:"levels"` // per point: 0 OK, 3 CRITICAL
	Script string `json:"script"`
	Config string `json:"config"`
}

func runC01Flap(c *Ctx) Verdict {
	g := c.G
	sc := &c01FlapScenario{Kind: "flapping"}
	const hist = 21
	low, high := 0.1, 0.6
	lvl := 0
	phases := g.Range(2, 3)
	for ph := 0; ph < phases; ph++ {
		if ph%2 == 0 { // unrest: (nearly) every point changes the level
			for i, n := 0, g.Range(16, 26); i < n; i++ {
				if !g.Chance(1, 12) {
					lvl = 3 - lvl
				}
				sc.Levels = append(sc.Levels, lvl)
			}
		} else { // calm: (nearly) every point keeps it
			if g.Bool() {
				lvl = 3
			}
			for i, n := 0, g.Range(8, 22); i < n; i++ {
				if g.Chance(1, 15) {
					lvl = 3 - lvl
				}
				sc.Levels = append(sc.Levels, lvl)
			}
		}
	}
	sc.Script = fmt.Sprintf("stream\n    |from().measurement('m').groupBy('host')\n    |alert()\n        .id('{{ index .Tags \"host\" }}')\n        .crit(lambda: \"v\" > 80)\n        .flapping(%v, %v)\n        .topic('t1')\n", low, high)
	c.Scenario = sc
	cfg := c.WorldConfig()
	delete(cfg.Knobs, "MinimumEventBufferSize")
	delete(cfg.Knobs, "DefaultEventBufferSize")
	cfg.MaxSteps = 3_000_000
	sc.Config = fmt.Sprintf("%v p=%.2f pool=%d", cfg.Strategy, cfg.SwitchProb, cfg.PoolMode)
	var verdict Verdict
	var d *harness.Daemon
	rec := &harness.RecHandler{Name: "h1"}
	res := c.World(cfg, func() {
		var err error
		d, err = harness.NewDaemon(harness.DaemonOpts{})
		if err != nil {
			verdict = Fail("harness/setup", "daemon: %v", err)
			return
		}
		d.Alert.RegisterAnonHandler("t1", rec)
		task, err := d.Define("A", sc.Script, kapacitor.StreamTask, []kapacitor.DBRP{{Database: "db", RetentionPolicy: "rp"}})
		if err != nil {
			verdict = Fail("harness/setup", "define: %v\n%s", err, sc.Script)
			return
		}
		if _, err := d.TM.StartTask(task); err != nil {
			verdict = Fail("harness/setup", "start: %v", err)
			return
		}
		for i, l := range sc.Levels {
			line := fmt.Sprintf("m,host=h0 v=%di %d\n", 10+l*30, int64(i+1)*int64(time.Second))
			if code := d.WriteLine("db", "rp", line); code != 204 {
				verdict = Fail("harness/setup", "write rejected %d", code)
			}
		}
		simrt.Fair()
		simrt.WaitIdle()
	})
	if v, bad := WorldVerdict(res, false); bad {
		return v
	}
	if verdict.Class != "" {
		return verdict
	}
	for _, e := range d.Sinks.Errs {
		return Fail("node-error", "the alert task reported an error on well-typed input: %s", e)
	}
	emitted := map[int]alert.Level{}
	for _, e := range rec.Events {
		emitted[int(e.TimeNs/1e9)] = e.Level
	}
	window := make([]int, hist) // the last `history` levels, oldest first; the history starts out as all OK
	state := "not-flapping"
	prev := 0
	probes := 0
	for i, l := range sc.Levels {
		window = append(window[1:], l)
		ch := 0
		for k := 1; k < hist; k++ {
			if window[k] != window[k-1] {
				ch++
			}
		}
		lo := 0.8 * float64(ch-1) / float64(hist-1) // least and greatest percentage any weighting in [0.8, 1.2] can give
		hi := 1.2 * float64(ch+1) / float64(hist-1)
		switch {
		case lo > high:
			state = "flapping"
		case hi < low:
			state = "not-flapping"
		case state == "flapping" && lo >= low: // cannot have gone below the low threshold: still flapping
		case state == "not-flapping" && hi <= high: // cannot have gone above the high threshold: still quiet
		default:
			state = "unknown"
		}
		t := i + 1
		_, got := emitted[t]
		due := l != 0 || prev != 0 // a non-OK point, or the recovery after one
		switch {
		case state == "flapping" && got:
			probes++
			v := Fail("events/flapping", "point #%d (t=%ds, level %d): %d of the last %d possible state changes happened, so the id has been flapping since it went above the high threshold %v and cannot have come back below the low threshold %v (any Nagios-style weighting gives at least %.3f); yet handlers received an event for this point. levels: %v", i, t, l, ch, hist-1, high, low, lo, sc.Levels)
			v.Shape = map[string]interface{}{"kind": "flapping", "clause": "event-while-flapping"}
			return v
		case state == "not-flapping" && due && !got:
			v := Fail("events/flapping", "point #%d (t=%ds, level %d, previous %d): %d of the last %d possible state changes happened, which is below the low threshold %v for any Nagios-style weighting (at most %.3f), so the id is not flapping; yet the event due for this point never reached the handlers. levels: %v", i, t, l, prev, ch, hist-1, low, hi, sc.Levels)
			v.Shape = map[string]interface{}{"kind": "flapping", "clause": "event-missing-while-quiet"}
			return v
		case state == "not-flapping" && !due && got:
			v := Fail("events/flapping", "point #%d (t=%ds) is OK after OK, yet handlers received an event for it", i, t)
			v.Shape = map[string]interface{}{"kind": "flapping", "clause": "event-for-ok"}
			return v
		}
		if state == "flapping" {
			c.Counters["probe.flapping_certain"]++
		}
		prev = l
	}
	return Pass()
}

func runC01(c *Ctx) Verdict {
	if c.G.Chance(1, 7) {
		return runC01Flap(c)
	}
	sc := c01Gen(c)
	c.Scenario = sc
	cfg := c.WorldConfig()
	delete(cfg.Knobs, "MinimumEventBufferSize")
	delete(cfg.Knobs, "DefaultEventBufferSize")
	if cfg.Strategy == simrt.StratStarve {
		cfg.StarveRole = []string{"alert/topics.go", "node.go", "c01.go"}[c.G.Intn(3)]
	}
	cfg.MaxSteps = 3_000_000
	sc.Config = fmt.Sprintf("%v p=%.2f pool=%d knobs=%v", cfg.Strategy, cfg.SwitchProb, cfg.PoolMode, cfg.Knobs)
	var verdict Verdict
	var d *harness.Daemon
	rec := &harness.RecHandler{Name: "h1"}
	res := c.World(cfg, func() {
		var err error
		d, err = harness.NewDaemon(harness.DaemonOpts{})
		if err != nil {
			verdict = Fail("harness/setup", "daemon: %v", err)
			return
		}
		rec.Delay = func() {
			if sc.SlowUs > 0 {
				time.Sleep(time.Duration(sc.SlowUs) * time.Microsecond)
				simrt.Count("fault.handler.slow")
			}
		}
		d.Alert.RegisterAnonHandler("t1", rec)
		// an unrelated task that is started and stopped while the alert runs
		task, err := d.Define("A", sc.Script, kapacitor.StreamTask, []kapacitor.DBRP{{Database: "db", RetentionPolicy: "rp"}})
		if err != nil {
			verdict = Fail("harness/setup", "define: %v\n%s", err, sc.Script)
			return
		}
		if _, err := d.TM.StartTask(task); err != nil {
			verdict = Fail("harness/setup", "start: %v", err)
			return
		}
		var wg sync.WaitGroup
		for h, pts := range sc.Hosts {
			wg.Add(1)
			go func(h int, pts []c01Point) {
				defer wg.Done()
				for _, p := range pts {
					extra := ""
					if sc.Cfg.ResetField {
						extra += fmt.Sprintf(",r=%di", p.R)
					}
					if p.WV != 0 {
						extra += fmt.Sprintf(",wv=%di", p.WV)
					}
					if p.CV != 0 {
						extra += fmt.Sprintf(",cv=%di", p.CV)
					}
					line := fmt.Sprintf("m,host=h%d v=%di%s %d\n", h, p.V, extra, int64(p.T)*int64(time.Second))
					if code := d.WriteLine("db", "rp", line); code != 204 {
						verdict = Fail("harness/setup", "write rejected %d", code)
					}
				}
			}(h, pts)
		}
		if !c.FaultFree {
			wg.Add(1)
			go func() {
				defer wg.Done()
				other, err := d.Define("X", "stream\n    |from().measurement('other')\n    |log().prefix('X')\n", kapacitor.StreamTask, []kapacitor.DBRP{{Database: "db", RetentionPolicy: "rp"}})
				if err != nil {
					return
				}
				for i := 0; i < 2; i++ {
					if _, err := d.TM.StartTask(other); err == nil {
						simrt.Count("fault.task.churn")
						d.TM.StopTask("X")
					}
				}
			}()
		}
		done := simrt.Expect("writers finish", 3_000_000, time.Hour)
		wg.Wait()
		done()
		if sc.Cfg.Batch {
			// push every host's last window out with a far later point (its own window is never emitted)
			for h := range sc.Hosts {
				d.WriteLine("db", "rp", fmt.Sprintf("m,host=h%d v=1i %d\n", h, int64(1000)*int64(time.Second)))
			}
		}
		simrt.Fair()
		simrt.WaitIdle()
	})
	if v, bad := WorldVerdict(res, false); bad {
		return v
	}
	if verdict.Class != "" {
		return verdict
	}
	if os.Getenv("KAPSIM_DEBUG") != "" {
		for _, e := range rec.Events {
			fmt.Fprintf(os.Stderr, "EVENT %s %v t=%d\n", e.ID, e.Level, e.TimeNs/1e9)
		}
		for _, o := range d.Sinks.Get("OUT") {
			if o.BCopy != nil {
				var ps []string
				for _, p := range o.BCopy.Points {
					ps = append(ps, fmt.Sprintf("%d:%v", p.TimeNs/1e9, p.Fields["v"]))
				}
				fmt.Fprintf(os.Stderr, "BATCH %s tmax=%d %v\n", o.BCopy.Group, o.BCopy.TMaxNs/1e9, ps)
			}
		}
	}
	for _, e := range d.Sinks.Errs {
		if sc.Cfg.SplitFields && strings.Contains(e, "is missing value") {
			continue // a point without the field of a level's condition: reported, and the condition does not hold
		}
		return Fail("node-error", "the alert task reported an error on well-typed input: %s", e)
	}
	shape := map[string]interface{}{"batch": sc.Cfg.Batch, "resets": sc.Cfg.InfoReset+sc.Cfg.WarnReset+sc.Cfg.CritReset > 0, "sco": sc.Cfg.SCO, "sco_interval": sc.Cfg.SCOIntervalS > 0, "no_recoveries": sc.Cfg.NoRecoveries}
	trivial := true
	for h, pts := range sc.Hosts {
		id := fmt.Sprintf("h%d", h)
		var got []harness.RecEvent
		for _, e := range rec.Events {
			if e.ID == id {
				got = append(got, e)
			}
		}
		if sc.Cfg.Batch {
			wantEv := sc.Cfg.batchModel(pts)
			var gl, want []alert.Level
			for _, e := range got {
				gl = append(gl, e.Level)
			}
			for _, e := range wantEv {
				want = append(want, e.Level)
			}
			if fmt.Sprint(gl) != fmt.Sprint(want) {
				v := Fail("events/batch", "alert id %s (batch form, all=%v): handlers saw levels %v, the documented rule gives %v for points %v", id, sc.Cfg.All, gl, want, pts)
				v.Shape = shape
				return v
			}
			for i, e := range got {
				w := wantEv[i]
				if w.TimeS >= 0 && (int(e.TimeNs/1e9) != w.TimeS || int(e.Duration/1e9) != w.DurS) {
					v := Fail("events/batch-time-duration", "alert id %s (batch form) event #%d %v carries time %ds and duration %ds; the point that triggers it (the first one of its window at that level) has time %ds, and %ds have passed since the triggering point of the episode's first event; points %v", id, i, e.Level, e.TimeNs/1e9, e.Duration/1e9, w.TimeS, w.DurS, pts)
					v.Shape = shape
					return v
				}
			}
			if len(want) > 0 {
				trivial = false
			}
			continue
		}
		want := sc.Cfg.model(pts)
		if len(want) > 0 {
			trivial = false
		}
		var gs, ws []string
		prev := alert.OK
		for i, e := range got {
			ev := c01Event{e.Level, int(e.TimeNs / 1e9), int(e.Duration / 1e9)}
			gs = append(gs, ev.String())
			// previous level = level of the preceding event of this ID
			if e.Prev != prev {
				v := Fail("events/previous-level", "alert id %s event #%d (%v) carries previous level %v, the preceding event of this id had level %v", id, i, ev, e.Prev, prev)
				v.Shape = shape
				return v
			}
			prev = e.Level
		}
		for _, e := range want {
			ws = append(ws, e.String())
		}
		if fmt.Sprint(gs) != fmt.Sprint(ws) {
			cls := "events/sequence"
			if len(gs) == len(ws) {
				cls = "events/level-time-duration"
			}
			v := Fail(cls, "alert id %s: handlers saw %v, the documented state machine gives %v for points %v (config %+v)", id, gs, ws, pts, sc.Cfg)
			v.Shape = shape
			return v
		}
	}
	// points forwarded downstream carry the event's level/id/duration
	if !sc.Cfg.Batch && sc.Cfg.Fields {
		perHost := map[string][]*harness.PointCopy{}
		for _, o := range d.Sinks.Get("OUT") {
			perHost[o.Copy.Tags["host"]] = append(perHost[o.Copy.Tags["host"]], o.Copy)
		}
		for h, pts := range sc.Hosts {
			id := fmt.Sprintf("h%d", h)
			want := sc.Cfg.model(pts)
			got := perHost[id]
			if len(got) != len(want) {
				v := Fail("sink/count", "alert id %s: %d events, %d points forwarded downstream", id, len(want), len(got))
				v.Shape = shape
				return v
			}
			for i, w := range want {
				p := got[i]
				if p.Fields["lvl"] != w.Level.String() || p.Tags["lvltag"] != w.Level.String() || p.Fields["aid"] != id || p.Fields["dur"] != int64(w.DurS)*int64(time.Second) || p.TimeNs != int64(w.TimeS)*int64(time.Second) {
					v := Fail("sink/augmented", "alert id %s: forwarded point #%d has lvl=%v lvltag=%v aid=%v dur=%v t=%v, the event was %v", id, i, p.Fields["lvl"], p.Tags["lvltag"], p.Fields["aid"], p.Fields["dur"], p.TimeNs, w)
					v.Shape = shape
					return v
				}
			}
		}
	}
	if trivial {
		c.Trivial = true
	}
	return Pass()
}

func init() {
	Register(&Prop{
		ID:  "C01",
		Run: runC01,
		Rule: "case = an alert() with a seeded subset of info/warn/crit thresholds and the documented reset expressions, stateChangesOnly (none / plain / interval 2-5s), noRecoveries, history(2-5), flapping with unreachable thresholds, level/id/duration fields and level tag, in stream form or (1 in 4) batch form behind a tumbling window with/without all(); 1-3 alert IDs each with 1-8/14 points drawn from values around the thresholds (including the documented 61 73 64 85 62 56 47), one concurrent writer per ID, a slow handler and unrelated task churn in the faulty configuration; " +
			"two thirds of the batch cases keep their reset conditions (the state moves once per batch: every point is held back by the reset of the level the ID had when the batch arrived), batch windows of 2s or 4s; (round 3) in a third of the cases with resets the reset conditions read a second field, in a fifth warn and crit read fields of their own that only some points carry (a condition over an absent field does not hold); " +
			"one case in seven instead is a flapping scenario (flapping(0.1, 0.6), default history, 25-70 points in phases of unrest and calm): a point certainly inside a flapping episode must produce no event, one certainly outside must produce its event, for every Nagios-style weighting; non-trivial = the model expects at least one event; distinct = distinct (scenario, interleaving signature) pairs",
		Real:        []string{"AlertNode (determineLevel, alertState.Point/BufferedBatch, addEvent/triggered/updateExpired/updateFlapping, augment*)", "services/alert Service.Collect, alert.Topics, bufHandler", "WindowNode (batch form), FromNode, LogNode, TaskMaster, httpd write endpoint", "tick/stateful (threshold lambdas)"},
		Stub:        []string{"recording alert.Handler registered on the alert's topic through the real service", "log sink below the alert node"},
		Assumptions: []string{"the reference model is written from the documentation in pipeline/alert.go (its worked reset example is reproduced by the generator's value set)", "in the batch form the alert's state moves once per batch: every point of a batch is held back by the reset condition of the level the ID had when the batch arrived; the batch form's stateChangesOnly interval is not generated", "flapping is checked through the law 'thresholds that can never trigger change nothing' and through a scenario whose reference only concludes what holds for every Nagios-style weighting", "wrong-typed fields are not generated here (C05 covers them); a condition over a field the point does not carry does not hold"},
	})
}
