package props

import (
	"fmt"
	"os"
	"strings"
	"sync"
	"time"

	"github.com/influxdata/kapacitor"
	"github.com/influxdata/kapacitor/alert"
	"github.com/influxdata/kapacitor/zz_sim/harness"
	"github.com/influxdata/kapacitor/zz_sim/simrt"
)

// C01 — alert events follow the documented level/recovery state machine.

type c01Config struct {
	Info, Warn, Crit                int  `json:"info,warn,crit"` // thresholds ("v" > x), 0 = level not configured
	InfoReset, WarnReset, CritReset int  // ("v" < x), 0 = none
	SCO                             bool `json:"state_changes_only"`
	SCOIntervalS                    int  `json:"state_changes_only_interval_s"`
	NoRecoveries                    bool `json:"no_recoveries"`
	History                         int  `json:"history"`
	FlappingNever                   bool `json:"flapping_with_unreachable_thresholds"`
	Fields                          bool `json:"level_id_duration_fields"`
	Batch                           bool `json:"batch_form"`
	All                             bool `json:"all"`
}

type c01Point struct {
	T int `json:"t_s"`
	V int `json:"v"`
}

type c01Scenario struct {
	Cfg    c01Config    `json:"alert"`
	Hosts  [][]c01Point `json:"hosts"`
	Script string       `json:"script"`
	SlowUs int          `json:"slow_handler_us"`
	Config string       `json:"config"`
}

func c01Gen(c *Ctx) *c01Scenario {
	g := c.G
	sc := &c01Scenario{}
	cf := &sc.Cfg
	// thresholds strictly increasing info < warn < crit
	cf.Crit = 80
	if g.Chance(3, 4) {
		cf.Warn = 70
	}
	if g.Chance(3, 4) {
		cf.Info = 60
	}
	if g.Chance(1, 6) {
		cf.Crit = 0
		if cf.Warn == 0 {
			cf.Warn = 70
		}
	}
	if g.Chance(1, 2) { // the documented reset configuration, level by level
		if cf.Info > 0 && g.Bool() {
			cf.InfoReset = 50
		}
		if cf.Warn > 0 && g.Bool() {
			cf.WarnReset = 60
		}
		if cf.Crit > 0 && g.Bool() {
			cf.CritReset = 70
		}
	}
	cf.SCO = g.Bool()
	if cf.SCO && g.Bool() {
		cf.SCOIntervalS = []int{2, 3, 5}[g.Intn(3)]
	}
	cf.NoRecoveries = g.Chance(1, 4)
	if g.Chance(1, 3) {
		cf.History = []int{2, 3, 5}[g.Intn(3)]
	}
	cf.FlappingNever = g.Chance(1, 4)
	cf.Fields = g.Bool()
	cf.Batch = g.Chance(1, 4)
	if cf.Batch {
		cf.All = g.Bool()
		// the batch form is checked for plain thresholds only (the documentation does not say how reset expressions combine inside one batch)
		cf.InfoReset, cf.WarnReset, cf.CritReset = 0, 0, 0
		cf.SCOIntervalS = 0
	}
	nh := g.Range(1, 3)
	maxPts := 8
	if c.Thorough() {
		maxPts = 14
	}
	vals := []int{47, 56, 61, 62, 64, 73, 85, 10, 95, 71, 59}
	for h := 0; h < nh; h++ {
		n := g.Range(1, maxPts)
		t := 0
		var pts []c01Point
		for i := 0; i < n; i++ {
			t += []int{1, 1, 2, 4}[g.Intn(4)]
			pts = append(pts, c01Point{T: t, V: vals[g.Intn(len(vals))]})
		}
		sc.Hosts = append(sc.Hosts, pts)
	}
	if !c.FaultFree && g.Chance(1, 3) {
		sc.SlowUs = []int{1, 500, 50000}[g.Intn(3)]
	}
	var sb strings.Builder
	sb.WriteString("stream\n    |from().measurement('m').groupBy('host')\n")
	if cf.Batch {
		// one batch per 2s of data time; every point of a host lies in exactly one tumbling window
		sb.WriteString("    |window().period(2s).every(2s).align()\n")
	}
	sb.WriteString("    |alert()\n        .id('{{ index .Tags \"host\" }}')\n        .message('{{ .ID }}')\n")
	if cf.Info > 0 {
		fmt.Fprintf(&sb, "        .info(lambda: \"v\" > %d)\n", cf.Info)
	}
	if cf.InfoReset > 0 {
		fmt.Fprintf(&sb, "        .infoReset(lambda: \"v\" < %d)\n", cf.InfoReset)
	}
	if cf.Warn > 0 {
		fmt.Fprintf(&sb, "        .warn(lambda: \"v\" > %d)\n", cf.Warn)
	}
	if cf.WarnReset > 0 {
		fmt.Fprintf(&sb, "        .warnReset(lambda: \"v\" < %d)\n", cf.WarnReset)
	}
	if cf.Crit > 0 {
		fmt.Fprintf(&sb, "        .crit(lambda: \"v\" > %d)\n", cf.Crit)
	}
	if cf.CritReset > 0 {
		fmt.Fprintf(&sb, "        .critReset(lambda: \"v\" < %d)\n", cf.CritReset)
	}
	if cf.SCO {
		if cf.SCOIntervalS > 0 {
			fmt.Fprintf(&sb, "        .stateChangesOnly(%ds)\n", cf.SCOIntervalS)
		} else {
			sb.WriteString("        .stateChangesOnly()\n")
		}
	}
	if cf.NoRecoveries {
		sb.WriteString("        .noRecoveries()\n")
	}
	if cf.History > 0 {
		fmt.Fprintf(&sb, "        .history(%d)\n", cf.History)
	}
	if cf.FlappingNever {
		sb.WriteString("        .flapping(0.99, 1.0)\n")
	}
	if cf.All {
		sb.WriteString("        .all()\n")
	}
	if cf.Fields {
		sb.WriteString("        .levelField('lvl')\n        .idField('aid')\n        .durationField('dur')\n        .levelTag('lvltag')\n")
	}
	sb.WriteString("        .topic('t1')\n    |log().prefix('OUT')\n")
	sc.Script = sb.String()
	return sc
}

// ---- reference model, written from the documentation in pipeline/alert.go ----

func (cf *c01Config) matches(l alert.Level, v int) bool {
	switch l {
	case alert.Info:
		return cf.Info > 0 && v > cf.Info
	case alert.Warning:
		return cf.Warn > 0 && v > cf.Warn
	case alert.Critical:
		return cf.Crit > 0 && v > cf.Crit
	}
	return false
}

func (cf *c01Config) resetPasses(l alert.Level, v int) (configured, pass bool) {
	switch l {
	case alert.Info:
		return cf.InfoReset > 0, v < cf.InfoReset
	case alert.Warning:
		return cf.WarnReset > 0, v < cf.WarnReset
	case alert.Critical:
		return cf.CritReset > 0, v < cf.CritReset
	}
	return false, true
}

// level: the highest severity whose condition holds; once in a state, it can only be lowered if that state's reset holds.
func (cf *c01Config) level(cur alert.Level, v int) alert.Level {
	highest := alert.OK
	for l := alert.Critical; l > alert.OK; l-- {
		if cf.matches(l, v) {
			highest = l
			break
		}
	}
	if highest >= cur {
		return highest
	}
	if configured, pass := cf.resetPasses(cur, v); configured && !pass {
		return cur
	}
	return highest
}

type c01Event struct {
	Level alert.Level
	TimeS int
	DurS  int
}

func (e c01Event) String() string { return fmt.Sprintf("%v@%ds(dur %ds)", e.Level, e.TimeS, e.DurS) }

// model returns the events one alert ID must produce for its point sequence (stream form).
func (cf *c01Config) model(pts []c01Point) []c01Event {
	var out []c01Event
	cur := alert.OK
	leftOK := 0
	lastTriggered := -1 << 40
	for _, p := range pts {
		nl := cf.level(cur, p.V)
		changed := nl != cur
		prev := cur
		cur = nl
		expired := !changed && cf.SCOIntervalS > 0 && p.T-lastTriggered >= cf.SCOIntervalS
		if cf.SCO && !changed && !expired {
			continue
		}
		if nl == alert.OK && !changed {
			continue
		}
		lastTriggered = p.T
		if prev == alert.OK {
			leftOK = p.T
		}
		if cf.NoRecoveries && nl == alert.OK {
			continue
		}
		out = append(out, c01Event{nl, p.T, p.T - leftOK})
	}
	return out
}

// batchModel: one decision per tumbling 2s window [2k, 2k+2): level = highest (or lowest with all()) of the window's points.
func (cf *c01Config) batchModel(pts []c01Point) []alert.Level {
	var out []alert.Level
	cur := alert.OK
	i := 0
	for i < len(pts) {
		w := pts[i].T / 2
		hi, lo := alert.OK, alert.Critical
		for i < len(pts) && pts[i].T/2 == w {
			l := cf.level(cur, pts[i].V)
			if l > hi {
				hi = l
			}
			if l < lo {
				lo = l
			}
			i++
		}
		nl := hi
		if cf.All {
			nl = lo
		}
		changed := nl != cur
		cur = nl
		if cf.SCO && !changed { // no interval in the batch form here
			continue
		}
		if nl == alert.OK && !changed {
			continue
		}
		if cf.NoRecoveries && nl == alert.OK {
			continue
		}
		out = append(out, nl)
	}
	return out
}

func runC01(c *Ctx) Verdict {
	sc := c01Gen(c)
	c.Scenario = sc
	cfg := c.WorldConfig()
	delete(cfg.Knobs, "MinimumEventBufferSize")
	delete(cfg.Knobs, "DefaultEventBufferSize")
	if cfg.Strategy == simrt.StratStarve {
		cfg.StarveRole = []string{"alert/topics.go", "node.go", "c01.go"}[c.G.Intn(3)]
	}
	cfg.MaxSteps = 3_000_000
	sc.Config = fmt.Sprintf("%v p=%.2f pool=%d knobs=%v", cfg.Strategy, cfg.SwitchProb, cfg.PoolMode, cfg.Knobs)
	var verdict Verdict
	var d *harness.Daemon
	rec := &harness.RecHandler{Name: "h1"}
	res := c.World(cfg, func() {
		var err error
		d, err = harness.NewDaemon(harness.DaemonOpts{})
		if err != nil {
			verdict = Fail("harness/setup", "daemon: %v", err)
			return
		}
		rec.Delay = func() {
			if sc.SlowUs > 0 {
				time.Sleep(time.Duration(sc.SlowUs) * time.Microsecond)
				simrt.Count("fault.handler.slow")
			}
		}
		d.Alert.RegisterAnonHandler("t1", rec)
		// an unrelated task that is started and stopped while the alert runs
		task, err := d.Define("A", sc.Script, kapacitor.StreamTask, []kapacitor.DBRP{{Database: "db", RetentionPolicy: "rp"}})
		if err != nil {
			verdict = Fail("harness/setup", "define: %v\n%s", err, sc.Script)
			return
		}
		if _, err := d.TM.StartTask(task); err != nil {
			verdict = Fail("harness/setup", "start: %v", err)
			return
		}
		var wg sync.WaitGroup
		for h, pts := range sc.Hosts {
			wg.Add(1)
			go func(h int, pts []c01Point) {
				defer wg.Done()
				for _, p := range pts {
					line := fmt.Sprintf("m,host=h%d v=%di %d\n", h, p.V, int64(p.T)*int64(time.Second))
					if code := d.WriteLine("db", "rp", line); code != 204 {
						verdict = Fail("harness/setup", "write rejected %d", code)
					}
				}
			}(h, pts)
		}
		if !c.FaultFree {
			wg.Add(1)
			go func() {
				defer wg.Done()
				other, err := d.Define("X", "stream\n    |from().measurement('other')\n    |log().prefix('X')\n", kapacitor.StreamTask, []kapacitor.DBRP{{Database: "db", RetentionPolicy: "rp"}})
				if err != nil {
					return
				}
				for i := 0; i < 2; i++ {
					if _, err := d.TM.StartTask(other); err == nil {
						simrt.Count("fault.task.churn")
						d.TM.StopTask("X")
					}
				}
			}()
		}
		done := simrt.Expect("writers finish", 3_000_000, time.Hour)
		wg.Wait()
		done()
		if sc.Cfg.Batch {
			// push every host's last window out with a far later point (its own window is never emitted)
			for h := range sc.Hosts {
				d.WriteLine("db", "rp", fmt.Sprintf("m,host=h%d v=1i %d\n", h, int64(1000)*int64(time.Second)))
			}
		}
		simrt.Fair()
		simrt.WaitIdle()
	})
	if v, bad := WorldVerdict(res, false); bad {
		return v
	}
	if verdict.Class != "" {
		return verdict
	}
	if os.Getenv("KAPSIM_DEBUG") != "" {
		for _, e := range rec.Events {
			fmt.Fprintf(os.Stderr, "EVENT %s %v t=%d\n", e.ID, e.Level, e.TimeNs/1e9)
		}
		for _, o := range d.Sinks.Get("OUT") {
			if o.BCopy != nil {
				var ps []string
				for _, p := range o.BCopy.Points {
					ps = append(ps, fmt.Sprintf("%d:%v", p.TimeNs/1e9, p.Fields["v"]))
				}
				fmt.Fprintf(os.Stderr, "BATCH %s tmax=%d %v\n", o.BCopy.Group, o.BCopy.TMaxNs/1e9, ps)
			}
		}
	}
	for _, e := range d.Sinks.Errs {
		return Fail("node-error", "the alert task reported an error on well-typed input: %s", e)
	}
	shape := map[string]interface{}{"batch": sc.Cfg.Batch, "resets": sc.Cfg.InfoReset+sc.Cfg.WarnReset+sc.Cfg.CritReset > 0, "sco": sc.Cfg.SCO, "sco_interval": sc.Cfg.SCOIntervalS > 0, "no_recoveries": sc.Cfg.NoRecoveries}
	trivial := true
	for h, pts := range sc.Hosts {
		id := fmt.Sprintf("h%d", h)
		var got []harness.RecEvent
		for _, e := range rec.Events {
			if e.ID == id {
				got = append(got, e)
			}
		}
		if sc.Cfg.Batch {
			want := sc.Cfg.batchModel(pts)
			var gl []alert.Level
			for _, e := range got {
				gl = append(gl, e.Level)
			}
			if fmt.Sprint(gl) != fmt.Sprint(want) {
				v := Fail("events/batch", "alert id %s (batch form, all=%v): handlers saw levels %v, the documented rule gives %v for points %v", id, sc.Cfg.All, gl, want, pts)
				v.Shape = shape
				return v
			}
			if len(want) > 0 {
				trivial = false
			}
			continue
		}
		want := sc.Cfg.model(pts)
		if len(want) > 0 {
			trivial = false
		}
		var gs, ws []string
		prev := alert.OK
		for i, e := range got {
			ev := c01Event{e.Level, int(e.TimeNs / 1e9), int(e.Duration / 1e9)}
			gs = append(gs, ev.String())
			// previous level = level of the preceding event of this ID
			if e.Prev != prev {
				v := Fail("events/previous-level", "alert id %s event #%d (%v) carries previous level %v, the preceding event of this id had level %v", id, i, ev, e.Prev, prev)
				v.Shape = shape
				return v
			}
			prev = e.Level
		}
		for _, e := range want {
			ws = append(ws, e.String())
		}
		if fmt.Sprint(gs) != fmt.Sprint(ws) {
			cls := "events/sequence"
			if len(gs) == len(ws) {
				cls = "events/level-time-duration"
			}
			v := Fail(cls, "alert id %s: handlers saw %v, the documented state machine gives %v for points %v (config %+v)", id, gs, ws, pts, sc.Cfg)
			v.Shape = shape
			return v
		}
	}
	// points forwarded downstream carry the event's level/id/duration
	if !sc.Cfg.Batch && sc.Cfg.Fields {
		perHost := map[string][]*harness.PointCopy{}
		for _, o := range d.Sinks.Get("OUT") {
			perHost[o.Copy.Tags["host"]] = append(perHost[o.Copy.Tags["host"]], o.Copy)
		}
		for h, pts := range sc.Hosts {
			id := fmt.Sprintf("h%d", h)
			want := sc.Cfg.model(pts)
			got := perHost[id]
			if len(got) != len(want) {
				v := Fail("sink/count", "alert id %s: %d events, %d points forwarded downstream", id, len(want), len(got))
				v.Shape = shape
				return v
			}
			for i, w := range want {
				p := got[i]
				if p.Fields["lvl"] != w.Level.String() || p.Tags["lvltag"] != w.Level.String() || p.Fields["aid"] != id || p.Fields["dur"] != int64(w.DurS)*int64(time.Second) || p.TimeNs != int64(w.TimeS)*int64(time.Second) {
					v := Fail("sink/augmented", "alert id %s: forwarded point #%d has lvl=%v lvltag=%v aid=%v dur=%v t=%v, the event was %v", id, i, p.Fields["lvl"], p.Tags["lvltag"], p.Fields["aid"], p.Fields["dur"], p.TimeNs, w)
					v.Shape = shape
					return v
				}
			}
		}
	}
	if trivial {
		c.Trivial = true
	}
	return Pass()
}

func init() {
	Register(&Prop{
		ID:  "C01",
		Run: runC01,
		Rule: "case = an alert() with a seeded subset of info/warn/crit thresholds and the documented reset expressions, stateChangesOnly (none / plain / interval 2-5s), noRecoveries, history(2-5), flapping with unreachable thresholds, level/id/duration fields and level tag, in stream form or (1 in 4) batch form behind a tumbling window with/without all(); 1-3 alert IDs each with 1-8/14 points drawn from values around the thresholds (including the documented 61 73 64 85 62 56 47), one concurrent writer per ID, a slow handler and unrelated task churn in the faulty configuration; " +
			"non-trivial = the model expects at least one event; distinct = distinct (scenario, interleaving signature) pairs",
		Real:        []string{"AlertNode (determineLevel, alertState.Point/BufferedBatch, addEvent/triggered/updateExpired/updateFlapping, augment*)", "services/alert Service.Collect, alert.Topics, bufHandler", "WindowNode (batch form), FromNode, LogNode, TaskMaster, httpd write endpoint", "tick/stateful (threshold lambdas)"},
		Stub:        []string{"recording alert.Handler registered on the alert's topic through the real service", "log sink below the alert node"},
		Assumptions: []string{"the reference model is written from the documentation in pipeline/alert.go (its worked reset example is reproduced by the generator's value set)", "the batch form is modelled for plain thresholds only; flapping is only checked through the metamorphic law 'thresholds that can never trigger change nothing'", "missing or wrong-typed fields are not generated here (C05 covers them)"},
	})
}
