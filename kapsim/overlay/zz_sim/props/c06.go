package props

import (
	"encoding/json"
	"fmt"
	"net/http"
	"sort"
	"strings"
	"sync"
	"time"

	"github.com/influxdata/kapacitor"
	"github.com/influxdata/kapacitor/zz_sim/harness"
	"github.com/influxdata/kapacitor/zz_sim/simrt"
)

// C06 — groups are processed independently and identified by their tag values.
// Metamorphic: the output for one group is the same whether or not the other groups are fed.

type c06Point struct {
	T   int  `json:"t_s"`
	V   int  `json:"v"`
	Opt int  `json:"opt"`                 // -1: field absent
	Gap bool `json:"gap_after,omitempty"` // the writer pauses 2 virtual minutes after this point (the idle barrier fires after 30s; the whole backlog of a run takes well under a second of virtual time even with slow sinks)
}

type c06Group struct {
	C      string // extra tag c (star mode): "" = the points of this group do not carry it
	A, B   string
	M      string
	WFloat bool // field w is a float in this group and an integer in the others
	Points []c06Point
}

type c06Scenario struct {
	GroupBy string     `json:"group_by"` // a | a,b
	ByM     bool       `json:"by_measurement"`
	Chain   []string   `json:"chain"`
	Groups  []c06Group `json:"groups"`
	Script  string     `json:"script"`
	Configs []string   `json:"configs"`

	httpRows map[int]string // the rows the httpOut endpoint showed at the end of the last run, per group
}

var c06Nodes = []string{
	"|where(lambda: \"v\" > 2)",
	"|eval(lambda: sigma(\"v\")).as('s').keep()",
	"|eval(lambda: count()).as('c').keep()",
	"|eval(lambda: spread(\"v\")).as('sp').keep()",
	"|stateCount(lambda: \"v\" > 2)",
	"|stateDuration(lambda: \"v\" > 2).unit(1s)",
	"|derivative('v').unit(1s)",
	"|changeDetect('v')",
	"|sample(2)",
	"|window().period(3s).every(3s)\n    |sum('v')",
	"|alert().crit(lambda: \"v\" > 5).stateChangesOnly().levelField('lvl').topic('t6')",
	"|where(lambda: \"opt\" > 1)",
	"|eval(lambda: \"opt\" + 1).as('o1').keep()",
	"|default().field('opt', 0)",
	"|window().period(3s).every(3s)\n    |sum('w')",
	"|window().period(3s).every(3s)\n    |mean('w')",
	"|cumulativeSum('w')",
	"|difference('w')",
	"|barrier().idle(30s).delete(TRUE)\n    |stateCount(lambda: \"v\" >= 0)",
	"|barrier().idle(30s).delete(TRUE)\n    |eval(lambda: count()).as('c').keep()",
	// the rows of httpOut are per-group state too: read at the end of the run, after groups have been deleted and re-created
	"|barrier().idle(30s).delete(TRUE)\n    |httpOut('x')",
	// a group-by tag is deleted: the groups are then told apart by the remaining dimensions (and the measurement)
	"|delete().tag('b')\n    |stateCount(lambda: \"v\" > 2)",
	"|delete().tag('b')\n    |window().periodCount(2).everyCount(2)\n    |sum('v')",
	// batches of all groups reach a join / union over two edges, through nodes that forward them message by message
	c06Join, c06Union,
}

const c06Join = "JOIN of two branches of batches"
const c06Union = "UNION of two branches of batches"

func lpEscape(s string) string {
	r := strings.NewReplacer(",", "\\,", "=", "\\=", " ", "\\ ")
	return r.Replace(s)
}

func c06Gen(c *Ctx) *c06Scenario {
	g := c.G
	sc := &c06Scenario{GroupBy: []string{"a", "a,b", "a", "a,b", "*"}[g.Intn(5)], ByM: g.Chance(1, 4)}
	n := g.Range(1, 3)
	hasAlert := false
	for i := 0; i < n; i++ {
		nd := c06Nodes[g.Intn(len(c06Nodes))]
		if strings.HasPrefix(nd, "|alert") {
			// two alert nodes publishing the same IDs to one topic influence each other through the topic; that is
			// not group interference, so at most one alert node per chain
			if hasAlert {
				nd = c06Nodes[0]
			}
			hasAlert = true
		}
		sc.Chain = append(sc.Chain, nd)
	}
	for _, nd := range sc.Chain {
		if strings.HasPrefix(nd, "|delete().tag('b')") && sc.GroupBy != "a,b" {
			sc.GroupBy = "a,b"
		}
	}
	for _, nd := range sc.Chain {
		if nd == c06Join || nd == c06Union {
			sc.Chain = []string{nd}
			if sc.GroupBy == "*" {
				sc.GroupBy = "a,b"
			}
			break
		}
		if strings.HasPrefix(nd, "|barrier") {
			// the barrier is driven by the wall clock: downstream of it, windows are also emitted on its messages, whose
			// number after the last point depends on when the run ends; keep this form on its own
			sc.Chain = []string{nd}
			break
		}
	}
	as := []string{"1", "1,b=2", "x y", "1,b", "q=r"}
	bs := []string{"3", "2,b=3", "3 ", "=2,b=3"}
	ng := g.Range(2, 4)
	seen := map[string]bool{}
	for len(sc.Groups) < ng {
		gr := c06Group{A: as[g.Intn(len(as))], B: bs[g.Intn(len(bs))], M: "m", WFloat: g.Chance(1, 3)}
		if sc.ByM && g.Bool() {
			gr.M = "m2"
		}
		if sc.GroupBy == "*" && len(sc.Groups) > 0 {
			// series with different tag key sets: the same a and b, with and without (and with different values of) a third tag
			gr.A, gr.B, gr.C = sc.Groups[0].A, sc.Groups[0].B, []string{"0", "1", "2"}[len(sc.Groups)-1]
		}
		// distinct group-by tag values (and measurement when grouping by it)
		key := gr.A + "\x00c" + gr.C
		if (sc.GroupBy == "a,b" || sc.GroupBy == "*") && !sc.deletesB() {
			key += "\x00" + gr.B
		}
		if sc.ByM {
			key += "\x00" + gr.M
		}
		if seen[key] {
			if len(seen) >= 12 {
				break
			}
			seen[key+fmt.Sprint(len(seen))] = true // bounded retries on an exhausted tape
			continue
		}
		seen[key] = true
		np := g.Range(2, 8)
		t := g.Intn(3)
		for j := 0; j < np; j++ {
			t += g.Range(1, 2)
			p := c06Point{T: t, V: g.Intn(9), Opt: -1, Gap: g.Chance(1, 5)}
			if g.Chance(2, 3) {
				p.Opt = g.Intn(5)
			}
			gr.Points = append(gr.Points, p)
		}
		sc.Groups = append(sc.Groups, gr)
	}
	var sb strings.Builder
	gb := "'a'"
	if sc.GroupBy == "a,b" {
		gb = "'a', 'b'"
	}
	if sc.GroupBy == "*" {
		// a groupBy node of its own, grouping by every tag a point carries
		sb.WriteString("stream\n    |from()\n    |groupBy(*)")
		if sc.ByM {
			sb.WriteString(".byMeasurement()")
		}
	} else {
		fmt.Fprintf(&sb, "stream\n    |from().groupBy(%s)", gb)
		if sc.ByM {
			sb.WriteString(".groupByMeasurement()")
		}
	}
	sb.WriteString("\n")
	if sc.Chain[0] == c06Join || sc.Chain[0] == c06Union {
		src := "var s = " + sb.String() + "    |window().period(3s).every(3s)\n"
		src += "var l = s\n    |where(lambda: \"v\" >= 0)\nvar r = s\n    |eval(lambda: \"v\" * 2).as('v2')\n"
		if sc.Chain[0] == c06Join {
			src += "l\n    |join(r).as('l', 'r')\n    |log().prefix('OUT')\n"
		} else {
			src += "l\n    |union(r)\n    |log().prefix('OUT')\n"
		}
		sc.Script = src
		return sc
	}
	for _, nd := range sc.Chain {
		sb.WriteString("    " + nd + "\n")
	}
	sb.WriteString("    |log().prefix('OUT')\n")
	sc.Script = sb.String()
	return sc
}

func (sc *c06Scenario) deletesB() bool {
	for _, nd := range sc.Chain {
		if strings.HasPrefix(nd, "|delete().tag('b')") {
			return true
		}
	}
	return false
}

// c06Run feeds the groups listed in only (nil = all) and returns the canonical outputs per group index.
func c06Run(c *Ctx, sc *c06Scenario, only int) (map[int][]string, Verdict) {
	cfg := c.WorldConfig()
	delete(cfg.Knobs, "MinimumEventBufferSize")
	delete(cfg.Knobs, "DefaultEventBufferSize")
	if cfg.Strategy == simrt.StratStarve {
		cfg.StarveRole = []string{"node.go", "c06.go"}[c.G.Intn(2)]
	}
	cfg.MaxSteps = 3_000_000
	sc.Configs = append(sc.Configs, fmt.Sprintf("%v p=%.2f pool=%d", cfg.Strategy, cfg.SwitchProb, cfg.PoolMode))
	var verdict Verdict
	var d *harness.Daemon
	httpOut := ""
	httpRows := map[int]string{}
	sc.httpRows = httpRows
	res := c.World(cfg, func() {
		var err error
		d, err = harness.NewDaemon(harness.DaemonOpts{})
		if err != nil {
			verdict = Fail("harness/setup", "daemon: %v", err)
			return
		}
		task, err := d.Define("G", sc.Script, kapacitor.StreamTask, []kapacitor.DBRP{{Database: "db", RetentionPolicy: "rp"}})
		if err != nil {
			verdict = Fail("harness/setup", "define: %v\n%s", err, sc.Script)
			return
		}
		if _, err := d.TM.StartTask(task); err != nil {
			verdict = Fail("harness/setup", "start: %v", err)
			return
		}
		var wg sync.WaitGroup
		for gi, gr := range sc.Groups {
			if only >= 0 && gi != only {
				continue
			}
			wg.Add(1)
			go func(gi int, gr c06Group) {
				defer wg.Done()
				for i, p := range gr.Points {
					fields := fmt.Sprintf("v=%di,gi=%di,s=%di,w=%di", p.V, gi, i, p.V+1)
					if gr.WFloat {
						fields = fmt.Sprintf("v=%di,gi=%di,s=%di,w=%d.5", p.V, gi, i, p.V)
					}
					if p.Opt >= 0 {
						fields += fmt.Sprintf(",opt=%di", p.Opt)
					}
					extra := ""
					if gr.C != "" {
						extra = ",c=" + gr.C
					}
					line := fmt.Sprintf("%s,a=%s,b=%s%s %s %d\n", gr.M, lpEscape(gr.A), lpEscape(gr.B), extra, fields, int64(p.T)*int64(time.Second))
					if code := d.WriteLine("db", "rp", line); code != 204 {
						verdict = Fail("harness/setup", "write rejected %d: %s", code, line)
					}
					if p.Gap {
						time.Sleep(2 * time.Minute)
					}
				}
			}(gi, gr)
		}
		done := simrt.Expect("writers finish", 3_000_000, time.Hour)
		wg.Wait()
		done()
		simrt.Fair()
		simrt.WaitIdle()
		if sc.Chain[0] == c06Join || sc.Chain[0] == c06Union {
			// a union orders the messages of all groups by time and holds back what one parent has delivered until the
			// other has caught up: what is still held back when the data ends depends on the other groups' traffic, and
			// is handed out when the task is stopped.  The per-group outputs are compared after that.
			done := simrt.Expect("StopTask", 3_000_000, time.Hour)
			d.TM.StopTask("G")
			done()
			simrt.WaitIdle()
		}
		if strings.Contains(sc.Script, "|httpOut('x')") {
			_, httpOut = d.Do(http.MethodGet, "/kapacitor/v1/tasks/G/x", "")
		}
	})
	if v, bad := WorldVerdict(res, false); bad {
		return nil, v
	}
	if verdict.Class != "" {
		return nil, verdict
	}
	out := map[int][]string{}
	if httpOut != "" {
		// the endpoint shows one row per live group: each row must belong to exactly one input group
		var doc struct {
			Series []struct {
				Name    string            `json:"name"`
				Tags    map[string]string `json:"tags"`
				Columns []string          `json:"columns"`
				Values  [][]interface{}   `json:"values"`
			} `json:"series"`
		}
		if err := json.Unmarshal([]byte(httpOut), &doc); err != nil {
			return nil, Fail("harness/setup", "httpOut endpoint: %v: %s", err, truncateStr(httpOut, 300))
		}
		seen := map[int]bool{}
		for _, se := range doc.Series {
			gi := -1
			for i, gr := range sc.Groups {
				if se.Tags["a"] == gr.A && (sc.GroupBy == "a" || se.Tags["b"] == gr.B) && (sc.GroupBy != "*" || se.Tags["c"] == gr.C) && (!sc.ByM || se.Name == gr.M) {
					gi = i
				}
			}
			row := fmt.Sprintf("httpOut row %v %v", se.Columns, se.Values)
			if gi < 0 {
				return nil, Fail("unattributable-output", "the httpOut endpoint shows a row with tags %v (name %s) that belong to no input group: %s", se.Tags, se.Name, row)
			}
			if seen[gi] {
				v := Fail("group-interference", "the httpOut endpoint shows two rows for the group %v (name %s): %s", se.Tags, se.Name, truncateStr(httpOut, 600))
				v.Shape = map[string]interface{}{"crafted_separators": c06Crafted(sc), "httpOut": true}
				return nil, v
			}
			seen[gi] = true
			httpRows[gi] = row
		}
	}
	for _, o := range d.Sinks.Get("OUT") {
		var tags map[string]string
		var line string
		var name string
		if o.Copy != nil {
			tags, name = o.Copy.Tags, o.Copy.Name
			line = c12Canon(strings.Join(o.Copy.Dims, "+"), o.Copy.TimeNs, o.Copy.Fields) + " tags=" + fmt.Sprint(simrt.Keys(o.Copy.Tags), o.Copy.Tags)
		} else {
			tags, name = o.BCopy.Tags, o.BCopy.Name
			var ps []string
			for _, p := range o.BCopy.Points {
				ps = append(ps, c12Canon("", p.TimeNs, p.Fields))
			}
			line = fmt.Sprintf("batch tmax=%d tags=%v [%s]", o.BCopy.TMaxNs/1e9, o.BCopy.Tags, strings.Join(ps, "; "))
		}
		// attribute the output to an input group through the tag values it carries (never through GroupID strings)
		gi := -1
		for i, gr := range sc.Groups {
			if tags["a"] == gr.A && (sc.GroupBy == "a" || sc.deletesB() || tags["b"] == gr.B) && (sc.GroupBy != "*" || tags["c"] == gr.C) && (!sc.ByM || name == gr.M) {
				gi = i
			}
		}
		if gi < 0 {
			return nil, Fail("unattributable-output", "an output carries group tags %v (name %s) that belong to no input group: %s", tags, name, line)
		}
		out[gi] = append(out[gi], line)
	}
	if sc.Chain[0] == c06Union {
		// which parent's batch of one time comes first is the union's business (one group, two parents), not group interference
		for gi := range out {
			sort.Strings(out[gi])
		}
	}
	return out, Verdict{}
}

// c06Retag: a node after the groupBy rewrites a group-by tag. Points that then agree on every group-by tag value
// are one group, whatever group they were in before.
type c06RetagScenario struct {
	Kind    string `json:"kind"`
	N       [3]int `json:"points"` // writer 0: a=1 explicitly, writer 1: tag a missing (default gives a=1), writer 2: a=2
	Script  string `json:"script"`
	Config  string `json:"config"`
	Counter string `json:"counter"`
}

func runC06Retag(c *Ctx) Verdict {
	g := c.G
	sc := &c06RetagScenario{Kind: "retag", N: [3]int{g.Range(1, 6), g.Range(1, 6), g.Range(0, 4)}}
	sc.Counter = []string{"|eval(lambda: count()).as('c').keep()", "|stateCount(lambda: \"v\" >= 0).as('c')", "|cumulativeSum('one').as('c')"}[g.Intn(3)]
	sc.Script = "stream\n    |from().groupBy('a')\n    |default().tag('a', '1')\n    " + sc.Counter + "\n    |log().prefix('OUT')\n"
	tags := []string{",a=1", "", ",a=2"}
	if g.Chance(1, 3) {
		// grouping by every tag but the excluded ones: series that differ only in an excluded tag are one group
		sc.Kind = "exclude"
		sc.Script = "stream\n    |from()\n    |groupBy(*).exclude(" + []string{"'k', 'b'", "'b', 'k'", "'z', 'k', 'b'"}[g.Intn(3)] + ")\n    " + sc.Counter + "\n    |log().prefix('OUT')\n"
		tags = []string{",a=1,b=x,k=z", ",a=1,b=y,k=z", ",a=2,b=x,k=z"}
	}
	c.Scenario = sc
	cfg := c.WorldConfig()
	delete(cfg.Knobs, "MinimumEventBufferSize")
	delete(cfg.Knobs, "DefaultEventBufferSize")
	cfg.MaxSteps = 3_000_000
	sc.Config = fmt.Sprintf("%v p=%.2f pool=%d", cfg.Strategy, cfg.SwitchProb, cfg.PoolMode)
	var verdict Verdict
	var d *harness.Daemon
	res := c.World(cfg, func() {
		var err error
		d, err = harness.NewDaemon(harness.DaemonOpts{})
		if err != nil {
			verdict = Fail("harness/setup", "daemon: %v", err)
			return
		}
		task, err := d.Define("G", sc.Script, kapacitor.StreamTask, []kapacitor.DBRP{{Database: "db", RetentionPolicy: "rp"}})
		if err != nil {
			verdict = Fail("harness/setup", "define: %v\n%s", err, sc.Script)
			return
		}
		if _, err := d.TM.StartTask(task); err != nil {
			verdict = Fail("harness/setup", "start: %v", err)
			return
		}
		var wg sync.WaitGroup
		for w := 0; w < 3; w++ {
			wg.Add(1)
			go func(w int) {
				defer wg.Done()
				tag := tags[w]
				for i := 0; i < sc.N[w]; i++ {
					line := fmt.Sprintf("m%s v=%di,one=1i,w=%di %d\n", tag, i, w, int64(i+1)*int64(time.Second))
					if code := d.WriteLine("db", "rp", line); code != 204 {
						verdict = Fail("harness/setup", "write rejected %d: %s", code, line)
					}
				}
			}(w)
		}
		done := simrt.Expect("writers finish", 3_000_000, time.Hour)
		wg.Wait()
		done()
		simrt.Fair()
		simrt.WaitIdle()
	})
	if v, bad := WorldVerdict(res, false); bad {
		return v
	}
	if verdict.Class != "" {
		return verdict
	}
	counts := map[string][]int{}
	for _, o := range d.Sinks.Get("OUT") {
		if o.Copy == nil {
			return Fail("harness/parse", "unexpected batch output")
		}
		a := o.Copy.Tags["a"]
		if a != "1" && a != "2" {
			return Fail("unattributable-output", "an output carries a=%q after default().tag('a','1'): %v", a, o.Copy.Tags)
		}
		cv, ok := o.Copy.Fields["c"].(int64)
		if !ok {
			return Fail("harness/parse", "output without integer counter field c: %v", o.Copy.Fields)
		}
		counts[a] = append(counts[a], int(cv))
	}
	wants := map[string]int{"1": sc.N[0] + sc.N[1], "2": sc.N[2]}
	for _, a := range []string{"1", "2"} {
		want := wants[a]
		got := append([]int(nil), counts[a]...)
		sort.Ints(got)
		ok := len(got) == want
		for i := 0; ok && i < len(got); i++ {
			ok = got[i] == i+1
		}
		if !ok {
			v := Fail("group-identity", "after default().tag('a','1') every point with a=%s is one group of %d points (%d written with a=1, %d without the tag), so its per-group counter must take the values 1..%d; observed counter values (sorted): %v\nscript:\n%s\nerrors: %v\nlog: %s", a, want, sc.N[0], sc.N[1], want, got, sc.Script, firstN(d.Sinks.Errs, 3), d.LogHead(600))
			v.Shape = map[string]interface{}{"kind": "retag"}
			return v
		}
	}
	return Pass()
}

func runC06(c *Ctx) Verdict {
	if c.G.Chance(1, 8) {
		return runC06Retag(c)
	}
	sc := c06Gen(c)
	c.Scenario = sc
	if len(sc.Groups) < 2 {
		c.Trivial = true
		return Pass()
	}
	all, v := c06Run(c, sc, -1)
	if v.Class != "" {
		return v
	}
	allRows := sc.httpRows
	shape := map[string]interface{}{"group_by": sc.GroupBy, "uses_optional_field": strings.Contains(sc.Script, "\"opt\""), "crafted_separators": c06Crafted(sc)}
	trivial := true
	for gi := range sc.Groups {
		alone, v := c06Run(c, sc, gi)
		if v.Class != "" {
			return v
		}
		if len(alone[gi]) > 0 {
			trivial = false
		}
		for other := range alone {
			if other != gi {
				return Fail("harness/attribution", "feeding only group %d produced output attributed to group %d", gi, other)
			}
		}
		if row, ok := allRows[gi]; ok && row != sc.httpRows[gi] {
			// (a group that fell silent long enough has no row; one that has a row shows its own last point)
			v := Fail("group-interference", "the httpOut row of group #%d (a=%q b=%q %s) differs when the other groups are fed too.\nfed alone:           %s\nfed with the others: %s\nscript:\n%s",
				gi, sc.Groups[gi].A, sc.Groups[gi].B, sc.Groups[gi].M, sc.httpRows[gi], row, sc.Script)
			v.Shape = shape
			return v
		}
		if strings.Join(all[gi], "\n") != strings.Join(alone[gi], "\n") {
			v := Fail("group-interference", "the output for group #%d (a=%q b=%q %s) differs when the other groups are fed too.\nfed alone (%d outputs):\n%s\nfed with the others (%d outputs):\n%s\nscript:\n%s",
				gi, sc.Groups[gi].A, sc.Groups[gi].B, sc.Groups[gi].M, len(alone[gi]), diffLines(alone[gi], all[gi]), len(all[gi]), diffLines(all[gi], alone[gi]), sc.Script)
			v.Shape = shape
			return v
		}
	}
	if trivial {
		c.Trivial = true
	}
	return Pass()
}

// c06Crafted reports whether two of the scenario's groups differ in tag values yet serialise to the same "k=v,k=v" string.
func c06Crafted(sc *c06Scenario) bool {
	if sc.GroupBy == "a" {
		return false
	}
	seen := map[string]bool{}
	for _, gr := range sc.Groups {
		k := "a=" + gr.A + ",b=" + gr.B
		if sc.GroupBy == "*" && gr.C != "" {
			k += ",c=" + gr.C
		}
		if sc.ByM {
			k = gr.M + "\n" + k
		}
		if seen[k] {
			return true
		}
		seen[k] = true
	}
	return false
}

func init() {
	Register(&Prop{
		ID:  "C06",
		Run: runC06,
		Rule: "case = from().groupBy('a') or ('a','b') [+groupByMeasurement], or a groupBy(*) node over series that share a and b and differ in whether (and with which value) they carry a third tag, followed by 1-3 nodes from 14 grouping-aware node forms (where, eval with the stateful functions sigma/count/spread, stateCount, stateDuration, derivative, changeDetect, sample, window+sum, alert with stateChangesOnly, an idle barrier (30s) that deletes a silent group (writers pause 2 virtual minutes after a fifth of their points) in front of stateCount / count(), predicates and evals over a field that is present in only some points, default, and window+sum/mean, cumulativeSum, difference over a field that is a float in some groups and an integer in others) over 2-4 groups whose tag values contain ',', '=', spaces and prefixes of one another (including pairs that serialise to the same 'k=v,k=v' string); run A feeds all groups with one concurrent writer each, runs B_g feed group g alone, every run under its own seeded schedule and sync.Pool behaviour; " +
			"(round 3) further forms: httpOut below a deleting idle barrier (its rows are read over HTTP at the end: one row per live group, equal to the row the group gets when fed alone), delete().tag of a group-by tag in front of stateCount / a count window (groups then differ in the remaining tag and the measurement), and a join / a union of two branches (where, eval) of the batches of a 3s window; " +
			"one case in eight instead (in a third of these, groupBy(*).exclude(...) with the exclusions in unsorted order over series that differ only in an excluded tag) rewrites the group-by tag after the groupBy (default().tag) for points written with and without the tag by two concurrent writers and requires one per-group counter (count(), stateCount, cumulativeSum) over their union; " +
			"non-trivial = some group produced output; distinct = distinct (scenario, interleaving signatures) tuples",
		Real:        []string{"FromNode/groupBy, edge.GroupedConsumer, models.ToGroupID", "WhereNode, EvalNode + tick/stateful (Expression.CopyReset, ScopePool), StateTracking nodes, DerivativeNode, ChangeDetectNode, SampleNode, WindowNode + InfluxQLNode, AlertNode, DefaultNode", "TaskMaster, httpd write endpoint"},
		Stub:        []string{"log sink at the end of the chain"},
		Assumptions: []string{"no reference model: the oracle is the relation between the run with all groups and the runs with one group", "outputs are attributed to groups through the tag values they carry, never through GroupID strings"},
	})
}
