package props

import (
	"fmt"
	"strings"
	"sync"
	"time"

	"github.com/influxdata/kapacitor"
	"github.com/influxdata/kapacitor/zz_sim/harness"
	"github.com/influxdata/kapacitor/zz_sim/simrt"
)

// C10 — per-point and per-group nodes compute their documented transformation; sibling branches see the original points.

type c10Node struct {
	Kind string `json:"kind"`
	X    int    `json:"x"`
	Flag bool   `json:"flag"`
}

type c10In struct {
	T    int    `json:"t_s"`
	A    int    `json:"a"`
	F    int    `json:"f_tenths"` // float field f = F/10
	S    string `json:"s"`
	HasK bool   `json:"has_k"`
	C    int    `json:"c"` // optional integer field c; -1 = absent
}

type c10Scenario struct {
	Branches [][]c10Node `json:"branches"`
	Groups   [][]c10In   `json:"groups"`
	BatchS   int         `json:"batch_window_s"` // 0: stream edges; else the chains run on the batches of window().period(Ns).every(Ns)
	Script   string      `json:"script"`
	Config   string      `json:"config"`
}

var c10Kinds = []string{"where", "evalKeep", "evalOnly", "evalKeepList", "evalTag", "default", "delete", "shift", "sample", "derivative", "changeDetect", "stateCount", "stateDuration", "deleteDim", "changeDetectOpt", "stateDuration", "whereCount", "evalCount", "evalOpt", "whereOpt"}

// units of stateDuration, in milliseconds
var c10Units = []int{1000, 2000, 60000, 500}
var c10UnitText = []string{"1s", "2s", "1m", "500ms"}

func (n c10Node) tick() string {
	switch n.Kind {
	case "where":
		return fmt.Sprintf("|where(lambda: \"a\" > %d)", n.X)
	case "whereCount":
		// a stateful lambda function: its state belongs to the group
		return fmt.Sprintf("|where(lambda: count() <= %d)", n.X+1)
	case "evalCount":
		return "|eval(lambda: count()).as('n').keep()"
	case "evalOpt":
		// over a field only some points carry: a point without it is skipped (and reported)
		return "|eval(lambda: \"c\" + \"a\").as('e1').keep()"
	case "whereOpt":
		return fmt.Sprintf("|where(lambda: isPresent(\"c\") AND \"c\" >= %d)", n.X%3)
	case "evalKeep":
		return fmt.Sprintf("|eval(lambda: \"a\" + %d).as('e1').keep()", n.X)
	case "evalOnly":
		return "|eval(lambda: \"a\" * 2, lambda: \"e1\" + 1).as('e1', 'e2')"
	case "evalKeepList":
		return fmt.Sprintf("|eval(lambda: \"a\" - %d).as('e1').keep('e1', 'a')", n.X)
	case "evalTag":
		return "|eval(lambda: \"s\" + 'x', lambda: \"a\" + 1).as('nt', 'e1').tags('nt')"
	case "default":
		return fmt.Sprintf("|default().field('d', %d).tag('k', 'dk')", n.X)
	case "delete":
		return "|delete().field('f').tag('k')"
	case "shift":
		return fmt.Sprintf("|shift(%ds)", n.X+1)
	case "sample":
		return fmt.Sprintf("|sample(%d)", 2+n.X%2)
	case "derivative":
		s := "|derivative('f').unit(1s)"
		if n.Flag {
			s += ".nonNegative()"
		}
		if n.X%2 == 1 {
			s += ".as('df')"
		}
		return s
	case "changeDetect":
		return "|changeDetect('a')"
	case "changeDetectOpt":
		return "|changeDetect('c')"
	case "deleteDim":
		return "|delete().tag('g')"
	case "flatten":
		return "|flatten().on('p')"
	case "regroup":
		return []string{"|groupBy('p')", "|groupBy('p', 'h')", "|groupBy('k')", "|groupBy(*)"}[n.X%4]
	case "combine":
		l0 := "lambda: \"p\" == 'p0'"
		if n.X%2 == 1 {
			l0 = "lambda: TRUE"
		}
		s := "|combine(" + l0 + ", lambda: TRUE).as('x', 'y')"
		if n.X == 4 {
			s = "|combine(lambda: TRUE, lambda: \"p\" == 'p0').as('x', 'y')"
		}
		if n.Flag {
			s += ".tolerance(2s)"
		}
		return s
	case "stateCount":
		return fmt.Sprintf("|stateCount(lambda: \"a\" > %d)", n.X)
	case "stateDuration":
		return fmt.Sprintf("|stateDuration(lambda: \"a\" > %d).unit(%s)", n.X, c10UnitText[n.X%4])
	}
	return ""
}

func c10Gen(c *Ctx) *c10Scenario {
	g := c.G
	sc := &c10Scenario{}
	nb := g.Range(2, 3)
	if g.Chance(1, 3) {
		sc.BatchS = g.Range(2, 4)
	}
	for b := 0; b < nb; b++ {
		var chain []c10Node
		n := g.Range(1, 3)
		dropped := false // after evalOnly / evalKeepList / evalTag some input fields are gone
		for i := 0; i < n; i++ {
			k := c10Kinds[g.Intn(len(c10Kinds))]
			if dropped {
				// later nodes would refer to fields that no longer exist; end the chain with field-agnostic nodes
				k = []string{"shift", "sample"}[g.Intn(2)]
			}
			if k == "shift" && len(chain) > 0 && chain[len(chain)-1].Kind == "shift" {
				k = "sample" // shift cannot be chained on a shift node (the DSL rejects it at define time)
			}
			if sc.BatchS > 0 && (k == "sample" || k == "deleteDim" || k == "whereCount" || k == "evalCount") {
				// not compared on batch edges: the documentation of sample speaks of "every third data point or batch",
				// and a batch carries its dimensions in its begin message only
				k = []string{"where", "derivative", "changeDetect", "stateCount"}[g.Intn(4)]
				if dropped {
					k = "shift"
					if len(chain) > 0 && chain[len(chain)-1].Kind == "shift" {
						break
					}
				}
			}
			if i == n-1 && !dropped && g.Chance(1, 8) {
				k = "flatten" // creates dynamically named fields: only at the end of a chain
			} else if i == n-1 && sc.BatchS == 0 && g.Chance(1, 8) {
				k = "combine" // (on stream edges; prefixes every field and tag: only at the end of a chain)
			} else if i == n-1 && sc.BatchS == 0 && g.Chance(1, 8) {
				k = "regroup" // a groupBy node: the points get other dimensions (what later nodes would make of the new groups depends on the writers' interleaving: only at the end of a chain)
			}
			nd := c10Node{Kind: k, X: g.Intn(6), Flag: g.Bool()}
			if k == "evalOnly" || k == "evalKeepList" || k == "evalTag" {
				dropped = true
			}
			chain = append(chain, nd)
		}
		sc.Branches = append(sc.Branches, chain)
	}
	ng := g.Range(1, 3)
	maxPts := 8
	if c.Thorough() {
		maxPts = 16
	}
	for i := 0; i < ng; i++ {
		n := g.Range(1, maxPts)
		t := g.Intn(3)
		var pts []c10In
		for j := 0; j < n; j++ {
			t += []int{1, 1, 2, 0}[g.Intn(4)] // repeated timestamps: zero elapsed time for derivative
			pts = append(pts, c10In{T: t, A: g.Intn(7), F: g.Intn(60) - 20, S: []string{"p", "q", ""}[g.Intn(3)], HasK: g.Bool(), C: g.Intn(4) - 1})
		}
		if sc.BatchS > 0 {
			// a late point, so that the window holding the last points is emitted as well
			pts = append(pts, c10In{T: t + 2*sc.BatchS, A: g.Intn(7), F: g.Intn(60) - 20, S: "p", C: -1})
		}
		sc.Groups = append(sc.Groups, pts)
	}
	var sb strings.Builder
	// two group-by dimensions; h is unique per group, so deleting the dimension g leaves the partition unchanged
	sb.WriteString("var s = stream\n    |from().measurement('m').groupBy('g', 'h')\n")
	if sc.BatchS > 0 {
		fmt.Fprintf(&sb, "    |window().period(%ds).every(%ds)\ns\n    |log().prefix('IN')\n", sc.BatchS, sc.BatchS)
	}
	for b, chain := range sc.Branches {
		sb.WriteString("s\n")
		for _, nd := range chain {
			sb.WriteString("    " + nd.tick() + "\n")
		}
		fmt.Fprintf(&sb, "    |log().prefix('B%d')\n", b)
	}
	sc.Script = sb.String()
	return sc
}

// ---- reference interpreter over plain structs ----

type c10P struct {
	tags   map[string]string
	fields map[string]interface{}
	t      int64  // seconds
	dims   string // group-by dimensions, "+"-joined
}

func (p c10P) clone() c10P {
	return c10P{tags: simrt.CloneMap(p.tags), fields: simrt.CloneMap(p.fields), t: p.t, dims: p.dims}
}

func (p c10P) canon() string {
	var ts, fs []string
	for _, k := range simrt.Keys(p.tags) {
		ts = append(ts, fmt.Sprintf("%s=%q", k, p.tags[k]))
	}
	for _, k := range simrt.Keys(p.fields) {
		v := p.fields[k]
		if f, ok := v.(float64); ok {
			fs = append(fs, fmt.Sprintf("%s=float:%.9g", k, f))
		} else {
			fs = append(fs, fmt.Sprintf("%s=%T:%v", k, v, v))
		}
	}
	return fmt.Sprintf("t=%d dims[%s] tags[%s] fields[%s]", p.t, p.dims, strings.Join(ts, ","), strings.Join(fs, ","))
}

// apply runs one node over one group's sequence (all listed nodes keep the group).
func (n c10Node) apply(in []c10P) []c10P { return n.applyTo(in, false) }

// c10B is one batch of one group.
type c10B struct {
	tmax int64
	tags map[string]string
	pts  []c10P
}

func (b c10B) canon() string {
	var ts, ps []string
	for _, k := range simrt.Keys(b.tags) {
		ts = append(ts, fmt.Sprintf("%s=%q", k, b.tags[k]))
	}
	for _, p := range b.pts {
		ps = append(ps, "    "+p.canon())
	}
	return fmt.Sprintf("batch tmax=%d tags[%s] %d points\n%s", b.tmax, strings.Join(ts, ","), len(b.pts), strings.Join(ps, "\n"))
}

// applyBatch: on a batch edge every node works on one batch at a time, with no memory of earlier batches; the batch keeps
// its time (shift moves it) and its tags (default and delete apply to them as to the points' tags).
func (n c10Node) applyBatch(b c10B) c10B {
	out := c10B{tmax: b.tmax, tags: simrt.CloneMap(b.tags), pts: n.applyTo(b.pts, true)}
	switch n.Kind {
	case "shift":
		out.tmax += int64(n.X + 1)
	case "default":
		if v, ok := out.tags["k"]; !ok || v == "" {
			out.tags["k"] = "dk"
		}
	case "delete":
		delete(out.tags, "k")
	}
	return out
}

// applyTo: endOfBatch tells flatten that no further point follows (a batch ends; a stream never does).
func (n c10Node) applyTo(in []c10P, endOfBatch bool) []c10P {
	var out []c10P
	switch n.Kind {
	case "where":
		for _, p := range in {
			if p.fields["a"].(int64) > int64(n.X) {
				out = append(out, p)
			}
		}
	case "whereCount":
		for i, p := range in {
			if i < n.X+1 {
				out = append(out, p)
			}
		}
	case "evalOpt":
		for _, p := range in {
			cv, ok := p.fields["c"].(int64)
			if !ok {
				continue
			}
			q := p.clone()
			q.fields["e1"] = cv + p.fields["a"].(int64)
			out = append(out, q)
		}
	case "whereOpt":
		for _, p := range in {
			if cv, ok := p.fields["c"].(int64); ok && cv >= int64(n.X%3) {
				out = append(out, p)
			}
		}
	case "evalCount":
		for i, p := range in {
			q := p.clone()
			q.fields["n"] = int64(i + 1)
			out = append(out, q)
		}
	case "evalKeep":
		for _, p := range in {
			q := p.clone()
			q.fields["e1"] = p.fields["a"].(int64) + int64(n.X)
			out = append(out, q)
		}
	case "evalOnly":
		for _, p := range in {
			q := p.clone()
			e1 := p.fields["a"].(int64) * 2
			q.fields = map[string]interface{}{"e1": e1, "e2": e1 + 1}
			out = append(out, q)
		}
	case "evalKeepList":
		for _, p := range in {
			q := p.clone()
			q.fields = map[string]interface{}{"e1": p.fields["a"].(int64) - int64(n.X), "a": p.fields["a"]}
			out = append(out, q)
		}
	case "evalTag":
		for _, p := range in {
			q := p.clone()
			q.tags["nt"] = p.fields["s"].(string) + "x"
			q.fields = map[string]interface{}{"e1": p.fields["a"].(int64) + 1}
			out = append(out, q)
		}
	case "default":
		for _, p := range in {
			q := p.clone()
			if _, ok := q.fields["d"]; !ok {
				q.fields["d"] = int64(n.X)
			}
			if v, ok := q.tags["k"]; !ok || v == "" {
				q.tags["k"] = "dk"
			}
			out = append(out, q)
		}
	case "delete":
		for _, p := range in {
			q := p.clone()
			delete(q.fields, "f")
			delete(q.tags, "k")
			out = append(out, q)
		}
	case "deleteDim":
		for _, p := range in {
			q := p.clone()
			delete(q.tags, "g")
			q.dims = "h"
			out = append(out, q)
		}
	case "flatten":
		// the points of one group with the same time become one point whose fields are named <value of p>.<field>
		// (a later point with the same p overwrites); it is emitted once a point with a later time has arrived
		var cur *c10P
		for _, p := range in {
			if cur != nil && p.t > cur.t {
				out = append(out, *cur)
				cur = nil
			}
			if cur == nil {
				cur = &c10P{t: p.t, fields: map[string]interface{}{}, tags: map[string]string{"h": p.tags["h"]}}
			}
			for k, v := range p.fields {
				cur.fields[p.tags["p"]+"."+k] = v
			}
		}
		if endOfBatch && cur != nil {
			out = append(out, *cur)
		}
	case "regroup":
		// the point is unchanged but for its dimensions: the named tags in sorted order (a tag the point lacks is still a dimension), or every tag it carries
		for _, p := range in {
			q := p.clone()
			switch n.X % 4 {
			case 0:
				q.dims = "p"
			case 1:
				q.dims = "h+p"
			case 2:
				q.dims = "k"
			default:
				q.dims = strings.Join(simrt.Keys(q.tags), "+")
			}
			out = append(out, q)
		}
	case "combine":
		// the points of one group with the same (tolerance-rounded) time are combined in pairs, each pair once: x is
		// the first point of the pair that satisfies the first expression, y the other; emitted once a point with a
		// later time has arrived
		round := func(t int64) int64 {
			if !n.Flag {
				return t
			}
			return (t + 1) / 2 * 2 // nearest multiple of 2s, halves up
		}
		emit := func(run []c10P) {
			for i := 0; i < len(run); i++ {
				for j := i + 1; j < len(run); j++ {
					x, y := run[i], run[j]
					if n.X == 4 {
						switch {
						case y.tags["p"] == "p0":
						case x.tags["p"] == "p0":
							x, y = y, x
						default:
							continue
						}
					} else if n.X%2 == 0 {
						switch {
						case x.tags["p"] == "p0":
						case y.tags["p"] == "p0":
							x, y = y, x
						default:
							continue
						}
					}
					q := c10P{t: round(x.t), dims: x.dims, tags: map[string]string{}, fields: map[string]interface{}{}}
					isDim := map[string]bool{}
					for _, d := range strings.Split(x.dims, "+") {
						isDim[d] = true
					}
					for pi, pt := range []c10P{x, y} {
						pre := []string{"x.", "y."}[pi]
						for k, v := range pt.fields {
							q.fields[pre+k] = v
						}
						for k, v := range pt.tags {
							if isDim[k] {
								q.tags[k] = v
							} else {
								q.tags[pre+k] = v
							}
						}
					}
					out = append(out, q)
				}
			}
		}
		var run []c10P
		for _, p := range in {
			if len(run) > 0 && round(p.t) != round(run[0].t) {
				emit(run)
				run = nil
			}
			run = append(run, p)
		}
		if endOfBatch {
			emit(run)
		}
	case "changeDetectOpt":
		// consecutive duplicates of the field are discarded; a point without the field is neither emitted nor a change
		var last interface{}
		for _, p := range in {
			v, ok := p.fields["c"]
			if !ok {
				continue
			}
			if v != last {
				out = append(out, p)
				last = v
			}
		}
	case "shift":
		for _, p := range in {
			q := p.clone()
			q.t += int64(n.X + 1)
			out = append(out, q)
		}
	case "sample":
		k := 2 + n.X%2
		// "one point will be emitted every count": the first, the (k+1)-th, ...
		for i, p := range in {
			if i%k == 0 {
				out = append(out, p)
			}
		}
	case "derivative":
		as := "f"
		if n.X%2 == 1 {
			as = "df"
		}
		var prev *c10P
		for i := range in {
			p := in[i]
			cur, ok := p.fields["f"].(float64)
			if !ok {
				continue
			}
			if prev != nil {
				dt := p.t - prev.t
				if dt > 0 {
					v := (cur - prev.fields["f"].(float64)) / float64(dt)
					if !(n.Flag && v < 0) {
						q := p.clone()
						q.fields[as] = v
						out = append(out, q)
					}
				}
			}
			prev = &in[i]
		}
	case "changeDetect":
		var last interface{}
		for i, p := range in {
			if i == 0 || p.fields["a"] != last {
				out = append(out, p)
			}
			last = p.fields["a"]
		}
	case "stateCount":
		cnt := int64(0)
		for _, p := range in {
			q := p.clone()
			if p.fields["a"].(int64) > int64(n.X) {
				cnt++
				q.fields["state_count"] = cnt
			} else {
				cnt = 0
				q.fields["state_count"] = int64(-1)
			}
			out = append(out, q)
		}
	case "stateDuration":
		start := int64(-1)
		for _, p := range in {
			q := p.clone()
			if p.fields["a"].(int64) > int64(n.X) {
				if start < 0 {
					start = p.t
				}
				q.fields["state_duration"] = float64((p.t-start)*1000) / float64(c10Units[n.X%4])
			} else {
				start = -1
				q.fields["state_duration"] = float64(-1)
			}
			out = append(out, q)
		}
	}
	return out
}

func runC10(c *Ctx) Verdict {
	sc := c10Gen(c)
	c.Scenario = sc
	cfg := c.WorldConfig()
	if cfg.Strategy == simrt.StratStarve {
		cfg.StarveRole = []string{"node.go", "c10.go"}[c.G.Intn(2)]
	}
	cfg.MaxSteps = 3_000_000
	sc.Config = fmt.Sprintf("%v p=%.2f pool=%d knobs=%v", cfg.Strategy, cfg.SwitchProb, cfg.PoolMode, cfg.Knobs)
	var verdict Verdict
	var d *harness.Daemon
	res := c.World(cfg, func() {
		var err error
		d, err = harness.NewDaemon(harness.DaemonOpts{})
		if err != nil {
			verdict = Fail("harness/setup", "daemon: %v", err)
			return
		}
		task, err := d.Define("N", sc.Script, kapacitor.StreamTask, []kapacitor.DBRP{{Database: "db", RetentionPolicy: "rp"}})
		if err != nil {
			verdict = Fail("harness/setup", "define: %v\n%s", err, sc.Script)
			return
		}
		if _, err := d.TM.StartTask(task); err != nil {
			verdict = Fail("harness/setup", "start: %v", err)
			return
		}
		var wg sync.WaitGroup
		for gi, pts := range sc.Groups {
			wg.Add(1)
			go func(gi int, pts []c10In) {
				defer wg.Done()
				for _, p := range pts {
					tags := fmt.Sprintf("g=g%d,h=h%d,p=p%d", gi, gi, p.A%2)
					if p.HasK {
						tags += ",k=kv"
					}
					opt := ""
					if p.C >= 0 {
						opt = fmt.Sprintf(",c=%di", p.C)
					}
					line := fmt.Sprintf("m,%s a=%di,f=%d.%d,s=\"%s\"%s %d\n", tags, p.A, p.F/10, abs(p.F%10), p.S, opt, int64(p.T)*int64(time.Second))
					if p.F < 0 && p.F > -10 {
						line = fmt.Sprintf("m,%s a=%di,f=-0.%d,s=\"%s\"%s %d\n", tags, p.A, abs(p.F%10), p.S, opt, int64(p.T)*int64(time.Second))
					}
					if code := d.WriteLine("db", "rp", line); code != 204 {
						verdict = Fail("harness/setup", "write rejected %d: %s", code, line)
					}
				}
			}(gi, pts)
		}
		done := simrt.Expect("writers finish", 3_000_000, time.Hour)
		wg.Wait()
		done()
		simrt.Fair()
		simrt.WaitIdle()
	})
	if v, bad := WorldVerdict(res, false); bad {
		return v
	}
	if verdict.Class != "" {
		return verdict
	}
	for _, e := range d.Sinks.Errs {
		if strings.Contains(e, "elaspsed time was 0") || strings.Contains(e, "field is the wrong type") || strings.Contains(e, "expected field c not found") || strings.Contains(e, "for type missing") {
			continue // documented refusals: no derivative between two points with the same time, or of a field that is not there
		}
		return Fail("node-error", "a node reported an error on well-typed input: %s\nscript:\n%s", e, sc.Script)
	}
	if sc.BatchS > 0 {
		return c10CheckBatch(c, sc, d)
	}
	trivial := true
	for b, chain := range sc.Branches {
		key := fmt.Sprintf("B%d", b)
		got := map[string][]string{}
		for _, o := range d.Sinks.Get(key) {
			if o.Copy == nil {
				return Fail("harness/unexpected-batch", "stream branch produced a batch")
			}
			p := c10P{tags: o.Copy.Tags, fields: o.Copy.Fields, t: o.Copy.TimeNs / 1e9, dims: strings.Join(o.Copy.Dims, "+")}
			if chain[len(chain)-1].Kind == "flatten" {
				// the documentation shows the fields and the time of a flattened point; which tags it keeps is not compared
				p = c10P{tags: map[string]string{"h": o.Copy.Tags["h"]}, fields: o.Copy.Fields, t: p.t}
			}
			got[o.Copy.Tags["h"]] = append(got[o.Copy.Tags["h"]], p.canon())
			// aliasing: the live message must still equal the copy taken when the sink saw it
			live := harness.CopyPoint(o.Point)
			lp := c10P{tags: live.Tags, fields: live.Fields, t: live.TimeNs / 1e9, dims: strings.Join(live.Dims, "+")}
			if chain[len(chain)-1].Kind == "flatten" {
				lp = c10P{tags: map[string]string{"h": live.Tags["h"]}, fields: live.Fields, t: lp.t}
			}
			if lp.canon() != p.canon() {
				v := Fail("aliasing/mutated-after-delivery", "a message delivered to branch %d was modified afterwards (a later node or a sibling branch changed it in place)\nwhen seen: %s\nat the end: %s\nscript:\n%s", b, p.canon(), lp.canon(), sc.Script)
				v.Shape = map[string]interface{}{"clause": "aliasing"}
				return v
			}
		}
		for gi, pts := range sc.Groups {
			var in []c10P
			for _, p := range pts {
				q := c10P{tags: map[string]string{"g": fmt.Sprintf("g%d", gi), "h": fmt.Sprintf("h%d", gi), "p": fmt.Sprintf("p%d", p.A%2)}, fields: map[string]interface{}{"a": int64(p.A), "f": float64(p.F) / 10, "s": p.S}, t: int64(p.T), dims: "g+h"}
				if p.HasK {
					q.tags["k"] = "kv"
				}
				if p.C >= 0 {
					q.fields["c"] = int64(p.C)
				}
				in = append(in, q)
			}
			cur := in
			for _, nd := range chain {
				cur = nd.apply(cur)
			}
			var want []string
			for _, p := range cur {
				want = append(want, p.canon())
			}
			if len(want) > 0 {
				trivial = false
			}
			g := got[fmt.Sprintf("h%d", gi)]
			if strings.Join(g, "\n") != strings.Join(want, "\n") {
				var kinds []string
				for _, nd := range chain {
					kinds = append(kinds, nd.tick())
				}
				// is the difference explained by a sibling's transformation leaking in?
				cls := "transformation"
				v := Fail(cls, "branch %d (%s) group g%d: output differs from the documented transformation of the original input.\n  missing:\n%s\n  unexpected:\n%s\nscript:\n%s", b, strings.Join(kinds, " "), gi, diffLines(want, g), diffLines(g, want), sc.Script)
				v.Shape = map[string]interface{}{"clause": "transformation", "nodes": strings.Join(kindsOf(chain), "+")}
				return v
			}
		}
	}
	if trivial {
		c.Trivial = true
	}
	return Pass()
}

func c10Input(gi int, p c10In, dims string) c10P {
	q := c10P{tags: map[string]string{"g": fmt.Sprintf("g%d", gi), "h": fmt.Sprintf("h%d", gi), "p": fmt.Sprintf("p%d", p.A%2)}, fields: map[string]interface{}{"a": int64(p.A), "f": float64(p.F) / 10, "s": p.S}, t: int64(p.T), dims: dims}
	if p.HasK {
		q.tags["k"] = "kv"
	}
	if p.C >= 0 {
		q.fields["c"] = int64(p.C)
	}
	return q
}

func c10Batch(bc *harness.BatchCopy, flat bool) c10B {
	b := c10B{tmax: bc.TMaxNs / 1e9, tags: bc.Tags}
	for _, p := range bc.Points {
		q := c10P{tags: p.Tags, fields: p.Fields, t: p.TimeNs / 1e9}
		if flat {
			q.tags = map[string]string{"h": p.Tags["h"]}
		}
		b.pts = append(b.pts, q)
	}
	return b
}

// c10CheckBatch: the batch form.  The batches the window node produced are observed on a branch of their own ('IN'); each of
// them must hold the written points of its group and period, and every branch must show, batch by batch and in order, the
// documented transformation of those points.
func c10CheckBatch(c *Ctx, sc *c10Scenario, d *harness.Daemon) Verdict {
	script := sc.Script
	wins := map[string][]c10B{} // per group: the input batches, rebuilt from the written points
	for _, o := range d.Sinks.Get("IN") {
		if o.BCopy == nil {
			return Fail("harness/unexpected-point", "the window node produced a point")
		}
		h := o.BCopy.Tags["h"]
		var gi int
		fmt.Sscanf(h, "h%d", &gi)
		if gi < 0 || gi >= len(sc.Groups) {
			return Fail("transformation", "a batch of an unknown group %q", h)
		}
		tmax := o.BCopy.TMaxNs / 1e9
		in := c10B{tmax: tmax, tags: map[string]string{"g": fmt.Sprintf("g%d", gi), "h": h}}
		for _, p := range sc.Groups[gi] {
			if int64(p.T) >= tmax-int64(sc.BatchS) && int64(p.T) < tmax {
				in.pts = append(in.pts, c10Input(gi, p, ""))
			}
		}
		if got := c10Batch(o.BCopy, false); got.canon() != in.canon() {
			v := Fail("aliasing/sibling-visible", "the batch of group %s ending at %ds, as a branch that only logs it saw it, is not the written data (a sibling branch changed the shared message in place, or the window is wrong)\nseen:    %s\nwritten: %s\nscript:\n%s", h, tmax, got.canon(), in.canon(), script)
			v.Shape = map[string]interface{}{"clause": "aliasing", "batch": true}
			return v
		}
		if live := c10Batch(harness.CopyBufferedBatch(o.Batch), false); live.canon() != in.canon() {
			v := Fail("aliasing/mutated-after-delivery", "the batch of group %s ending at %ds was modified after the logging branch saw it\nwhen seen: %s\nat the end: %s\nscript:\n%s", h, tmax, in.canon(), live.canon(), script)
			v.Shape = map[string]interface{}{"clause": "aliasing", "batch": true}
			return v
		}
		wins[h] = append(wins[h], in)
	}
	trivial := true
	for b, chain := range sc.Branches {
		flat := chain[len(chain)-1].Kind == "flatten"
		got := map[string][]string{}
		for _, o := range d.Sinks.Get(fmt.Sprintf("B%d", b)) {
			if o.BCopy == nil {
				return Fail("transformation", "branch %d of a batch pipeline produced a point\nscript:\n%s", b, script)
			}
			seen := c10Batch(o.BCopy, flat)
			if live := c10Batch(harness.CopyBufferedBatch(o.Batch), flat); live.canon() != seen.canon() {
				v := Fail("aliasing/mutated-after-delivery", "a batch delivered to branch %d was modified afterwards\nwhen seen: %s\nat the end: %s\nscript:\n%s", b, seen.canon(), live.canon(), script)
				v.Shape = map[string]interface{}{"clause": "aliasing", "batch": true}
				return v
			}
			if o.BCopy.Name != "m" {
				return Fail("transformation", "branch %d: a batch named %q, the input is named m\nscript:\n%s", b, o.BCopy.Name, script)
			}
			got[o.BCopy.Tags["h"]] = append(got[o.BCopy.Tags["h"]], seen.canon())
		}
		for gi := range sc.Groups {
			h := fmt.Sprintf("h%d", gi)
			var want []string
			for _, in := range wins[h] {
				cur := in
				for _, nd := range chain {
					cur = nd.applyBatch(cur)
				}
				if flat {
					for i := range cur.pts {
						cur.pts[i].tags = map[string]string{"h": h}
					}
				}
				if len(cur.pts) > 0 {
					trivial = false
				}
				want = append(want, cur.canon())
			}
			if g := got[h]; strings.Join(g, "\n") != strings.Join(want, "\n") {
				var kinds []string
				for _, nd := range chain {
					kinds = append(kinds, nd.tick())
				}
				v := Fail("transformation", "branch %d (%s) group g%d, batch edges: output differs from the documented transformation of the window's batches.\n  missing:\n%s\n  unexpected:\n%s\nscript:\n%s", b, strings.Join(kinds, " "), gi, diffLines(want, g), diffLines(g, want), script)
				v.Shape = map[string]interface{}{"clause": "transformation", "nodes": strings.Join(kindsOf(chain), "+"), "batch": true}
				return v
			}
		}
	}
	if trivial {
		c.Trivial = true
	}
	return Pass()
}

func kindsOf(chain []c10Node) []string {
	var ks []string
	for _, n := range chain {
		ks = append(ks, n.Kind)
	}
	return ks
}

func abs(x int) int {
	if x < 0 {
		return -x
	}
	return x
}

func init() {
	Register(&Prop{
		ID:  "C10",
		Run: runC10,
		Rule: "case = a stem from().groupBy('g','h') forked into 2-3 sibling branches (each its own goroutines), every branch a chain of 1-3 nodes from where, eval (as + keep() / keep(list) / no keep / tags()), default, delete (fields, tags, and the first group-by dimension), shift, sample, derivative (unit, nonNegative, as), changeDetect (also on a field that some points lack), stateCount, stateDuration (units 500ms/1s/2s/1m), flatten().on(tag) or combine (specific+TRUE, TRUE+TRUE, TRUE+specific expressions, optional tolerance) or a re-grouping groupBy (by a non-dimension tag, a tag some points lack, or *) as a last node, where/eval with the stateful lambda function count() or over a field only some points carry, with generated parameters; in a third of the cases the chains run on batch edges (below window().period(Ns).every(Ns), N 2-4: each batch must be the transformation of the written points of its group and period, with batch time and tags); outputs are compared with their group-by dimensions, over 1-3 groups of 1-8/16 points (int, float and string fields, an optional tag, repeated timestamps), one concurrent writer per group; " +
			"non-trivial = the reference produces output on some branch; distinct = distinct (scenario, interleaving signature) pairs",
		Real:        []string{"WhereNode, EvalNode, DefaultNode, DeleteNode, ShiftNode, SampleNode, DerivativeNode, ChangeDetectNode, StateTracking nodes", "edge forwarding (the same message object goes to every child edge), GroupedConsumer, tick/stateful", "FromNode/groupBy, LogNode, TaskMaster, httpd write endpoint"},
		Stub:        []string{"log sink at the end of every branch: keeps a deep copy taken on arrival and the live message"},
		Assumptions: []string{"the reference interpreter follows the node documentation in pipeline/*.go", "flatten only as the last node of a chain and compared by time and fields; combine, a re-grouping groupBy and flatten only as the last node of a chain (the first two on stream edges only); on batch edges sample (documented as 'every third data point or batch') and the deletion of a group-by dimension are left out", "whether a sibling's in-place mutation is visible depends on which branch runs first, which is what the simulator varies"},
	})
}
