package props

import (
	"errors"
	"fmt"
	"github.com/influxdata/kapacitor/zz_sim/simtime"
	"strings"
	"time"
	_ "time/tzdata" // the zone database, independent of the machine

	"github.com/influxdata/influxdb/models"
	"github.com/influxdata/influxql"
	"github.com/influxdata/kapacitor"
	"github.com/influxdata/kapacitor/influxdb"
	"github.com/influxdata/kapacitor/zz_sim/harness"
	"github.com/influxdata/kapacitor/zz_sim/simrt"
)

// C16 — batch queries cover exactly their scheduled, bounded time range.

type c16Scenario struct {
	Where      string `json:"where"`
	PeriodS    int    `json:"period_s"`
	EveryS     int    `json:"every_s"` // 0 => cron
	Cron       string `json:"cron,omitempty"`
	TZ         string `json:"server_time_zone,omitempty"` // "" = UTC; the daemon's local zone for this run
	OffsetS    int    `json:"offset_s"`
	Align      bool   `json:"align"`
	GroupBy    string `json:"group_by"` // "", "time", "tag", "star", "time+tag"
	Fill       string `json:"fill"`     // "", "null", "0"
	PhaseMs    int    `json:"start_phase_ms"`
	RunS       int    `json:"run_s"`
	Undeclared bool   `json:"query_names_undeclared_db"`
	SubQuery   bool   `json:"undeclared_db_inside_a_subquery,omitempty"`
	SecondRP   bool   `json:"undeclared_rp_of_a_declared_db_as_second_source,omitempty"`
	FailNode   bool   `json:"downstream_node_fails"`
	SlowMs     int    `json:"query_latency_ms"`
	SlowFirst  int    `json:"only_the_first_n_queries_are_slow,omitempty"` // 0: every query takes query_latency_ms
	ErrEvery   int    `json:"query_err_every"`
	JumpS      int    `json:"clock_jump_s"`
	Script     string `json:"script"`
	Config     string `json:"config"`
}

var c16Wheres = []string{
	"",
	"\"host\" = 'a'",
	"\"host\" = 'a' OR \"host\" = 'b'",
	"(\"host\" = 'a' OR \"dc\" = 'x') AND \"v\" > 1",
	"\"a\" = 1 OR \"b\" = 2 AND \"c\" = 3",
	"\"host\" = 'a' AND time > '2020-01-01T00:00:00Z'",
	"\"host\" =~ /^a.*/ OR (\"dc\" = 'x' OR \"dc\" = 'y')",
}

func c16Gen(c *Ctx) *c16Scenario {
	g := c.G
	sc := &c16Scenario{}
	sc.Where = c16Wheres[g.Intn(len(c16Wheres))]
	sc.PeriodS = []int{10, 1, 5, 60}[g.Intn(4)]
	if g.Chance(1, 5) {
		sc.Cron = []string{"*/5 * * * * * *", "*/2 * * * * * *", "0,30 * * * * * *"}[g.Intn(3)]
		if g.Chance(1, 3) {
			// a server whose local zone is 5h30 ahead of UTC and a schedule that names the minute: the world starts at
			// 05:06:07Z = 10:36:07 local, so this schedule fires only if it is evaluated in the server's local time,
			// live and in the list of past queries alike
			sc.TZ, sc.Cron = "Asia/Kolkata", "*/5 36,37 * * * * *"
		}
	} else {
		sc.EveryS = []int{2, 1, 5, 10, 7, 11}[g.Intn(6)] // (7s and 11s do not divide the distance between year 1 and 1970: "aligned" depends on the origin)
		sc.Align = g.Bool()
	}
	sc.OffsetS = []int{0, 0, 1, 30}[g.Intn(4)]
	sc.GroupBy = []string{"", "time", "tag", "star", "time+tag"}[g.Intn(5)]
	sc.Fill = []string{"", "null", "0"}[g.Intn(3)]
	sc.PhaseMs = g.Intn(10000)
	sc.RunS = g.Range(8, 45)
	sc.Undeclared = g.Chance(1, 10)
	sc.SubQuery = sc.Undeclared && g.Bool()
	sc.SecondRP = sc.Undeclared && !sc.SubQuery && g.Bool()
	if !c.FaultFree {
		if g.Chance(1, 4) {
			sc.FailNode = true
		}
		if g.Chance(1, 3) {
			sc.SlowMs = []int{100, 900, 2500, 7000}[g.Intn(4)]
			if g.Bool() && sc.Cron == "" {
				// InfluxDB recovers after 1-3 queries that took several intervals each (ticks were dropped meanwhile):
				// the task must catch up with the schedule
				sc.SlowFirst = g.Range(1, 3)
				sc.SlowMs = g.Range(3, 7) * sc.EveryS * 1000
			}
		}
		if g.Chance(1, 4) {
			sc.ErrEvery = g.Range(2, 4)
		}
		if g.Chance(1, 5) {
			sc.JumpS = []int{3, 17, 61}[g.Intn(3)]
		}
	}
	db := "db"
	if sc.Undeclared {
		db = "otherdb"
	}
	q := fmt.Sprintf("SELECT mean(\"v\") FROM \"%s\".\"rp\".\"m\"", db)
	if sc.SecondRP {
		// the first source is declared; the second names another retention policy of the same database
		q = "SELECT mean(\"v\") FROM \"db\".\"rp\".\"m\", \"db\".\"otherrp\".\"m\""
	}
	if sc.Undeclared && sc.SubQuery {
		// the undeclared database only appears inside a subquery
		q = "SELECT mean(\"v\") FROM (SELECT max(\"v\") AS \"v\" FROM \"otherdb\".\"rp\".\"m\" GROUP BY \"host\")"
	}
	if sc.Where != "" {
		q += " WHERE " + sc.Where
	}
	var sb strings.Builder
	fmt.Fprintf(&sb, "batch\n    |query('''%s ''')\n        .period(%ds)", q, sc.PeriodS)
	if sc.Cron != "" {
		fmt.Fprintf(&sb, "\n        .cron('%s')", sc.Cron)
	} else {
		fmt.Fprintf(&sb, "\n        .every(%ds)", sc.EveryS)
	}
	if sc.OffsetS > 0 {
		fmt.Fprintf(&sb, "\n        .offset(%ds)", sc.OffsetS)
	}
	if sc.Align {
		sb.WriteString("\n        .align()")
	}
	switch sc.GroupBy {
	case "time":
		sb.WriteString("\n        .groupBy(time(1s))")
	case "tag":
		sb.WriteString("\n        .groupBy('host')")
	case "star":
		sb.WriteString("\n        .groupBy(*)")
	case "time+tag":
		sb.WriteString("\n        .groupBy(time(1s), 'host')")
	}
	switch sc.Fill {
	case "null":
		sb.WriteString("\n        .fill('null')")
	case "0":
		sb.WriteString("\n        .fill(0)")
	}
	if sc.FailNode {
		// the alert node fails on its first event (the id template refers to data an id template does not have)
		sb.WriteString("\n    |alert()\n        .id('{{ index .Fields \"x\" }}')\n        .crit(lambda: TRUE)\n        .topic('t16')")
	}
	sb.WriteString("\n    |log().prefix('B')\n")
	sc.Script = sb.String()
	return sc
}

type c16Bounds struct {
	min, max time.Time // [min, max] inclusive as influxql reports them
}

// c16Analyse re-parses a query string the way InfluxDB would and returns its time range and the rest.
func c16Analyse(q string) (*influxql.SelectStatement, influxql.Expr, influxql.TimeRange, error) {
	st, err := influxql.ParseStatement(q)
	if err != nil {
		return nil, nil, influxql.TimeRange{}, fmt.Errorf("does not parse: %v", err)
	}
	sel, ok := st.(*influxql.SelectStatement)
	if !ok {
		return nil, nil, influxql.TimeRange{}, errors.New("not a SELECT")
	}
	cond, tr, err := influxql.ConditionExpr(sel.Condition, nil)
	if err != nil {
		return sel, nil, tr, fmt.Errorf("time bounds do not cover the whole condition: %v", err)
	}
	return sel, cond, tr, nil
}

func runC16(c *Ctx) Verdict {
	sc := c16Gen(c)
	c.Scenario = sc
	if sc.TZ != "" {
		// the worker runs one case at a time and every simulated goroutine of earlier cases is gone: the process-wide
		// local zone can be set for the duration of this case
		loc, err := time.LoadLocation(sc.TZ)
		if err != nil {
			return Fail("harness/setup", "time zone %s: %v", sc.TZ, err)
		}
		defer simtime.SetLocal(loc)()
	}
	cfg := c.WorldConfig()
	cfg.MaxSteps = 4_000_000
	if cfg.TimerLateNs > int64(50*time.Millisecond) {
		cfg.TimerLateNs = int64(50 * time.Millisecond)
	}
	sc.Config = fmt.Sprintf("%v p=%.2f step=%dns late=%dns knobs=%v", cfg.Strategy, cfg.SwitchProb, cfg.StepCostNs, cfg.TimerLateNs, cfg.Knobs)
	shape := map[string]interface{}{"where_has_top_level_or": strings.Contains(sc.Where, " OR ") && !strings.HasPrefix(sc.Where, "("), "align": sc.Align, "cron": sc.Cron != "", "downstream_node_fails": sc.FailNode}
	fi := &harness.FakeInflux{}
	nq := 0
	fi.QueryLatency = func() time.Duration {
		if sc.SlowFirst > 0 && len(fi.Queries) > sc.SlowFirst {
			return 0
		}
		return time.Duration(sc.SlowMs) * time.Millisecond
	}
	fi.QueryErr = func() error {
		nq++
		if sc.ErrEvery > 0 && nq%sc.ErrEvery == 0 {
			return errors.New("influxdb is unavailable")
		}
		return nil
	}
	fi.Answer = func(q influxdb.Query) *influxdb.Response {
		return &influxdb.Response{Results: []influxdb.Result{{Series: []models.Row{{
			Name: "m", Tags: map[string]string{"host": "a"}, Columns: []string{"time", "mean"},
			Values: [][]interface{}{{time.Now().UTC().Format(time.RFC3339Nano), 1.5}},
		}}}}}
	}
	var verdict Verdict
	var startErr error
	var t0, t1 time.Time
	var hist, listed []kapacitor.BatchQueries
	var split []string
	var splitAt time.Time
	splitOK := false
	var histErr, listErr error
	res := c.World(cfg, func() {
		d, err := harness.NewDaemon(harness.DaemonOpts{Influx: fi})
		if err != nil {
			verdict = Fail("harness/setup", "daemon: %v", err)
			return
		}
		time.Sleep(time.Duration(sc.PhaseMs) * time.Millisecond)
		task, err := d.TM.NewTask("B", sc.Script, kapacitor.BatchTask, []kapacitor.DBRP{{Database: "db", RetentionPolicy: "rp"}}, 0, nil)
		if err != nil {
			verdict = Fail("harness/setup", "define: %v\n%s", err, sc.Script)
			return
		}
		et, err := d.TM.StartTask(task)
		if err != nil {
			verdict = Fail("harness/setup", "start: %v", err)
			return
		}
		t0 = time.Now()
		startErr = et.StartBatching()
		if startErr != nil {
			// what task_store does when batching cannot start
			done := simrt.Expect("StopTask after failed StartBatching", 3_000_000, time.Hour)
			d.TM.StopTask("B")
			done()
			// what recording a batch task does: a fresh, never started ExecutingTask is asked for the queries of a span, which are then run
			if rt, err := kapacitor.NewExecutingTask(d.TM, task); err == nil {
				listed, listErr = rt.BatchQueries(t0.UTC(), t0.Add(30*time.Second).UTC())
			}
			return
		}
		half := time.Duration(sc.RunS) * time.Second / 2
		time.Sleep(half)
		if sc.JumpS > 0 {
			simrt.JumpClock(time.Duration(sc.JumpS) * time.Second)
		}
		time.Sleep(half)
		t1 = time.Now()
		hist, histErr = et.BatchQueries(t0.UTC(), t1.UTC()) // as the recording API passes them: parsed from RFC3339, in UTC
		if histErr == nil && len(hist) == 1 && len(hist[0].Queries) >= 2 {
			// the same span cut in two at one of its own ticks: whatever side the tick on the cut belongs to, the two
			// lists together must be the list of the whole span
			if _, _, tr, err := c16Analyse(hist[0].Queries[len(hist[0].Queries)/2].String()); err == nil {
				splitAt = tr.Max.Add(time.Nanosecond).Add(time.Duration(sc.OffsetS) * time.Second).UTC()
				h1, err1 := et.BatchQueries(t0.UTC(), splitAt)
				h2, err2 := et.BatchQueries(splitAt, t1.UTC())
				if err1 == nil && err2 == nil && len(h1) == 1 && len(h2) == 1 {
					for _, q := range h1[0].Queries {
						split = append(split, q.String())
					}
					for _, q := range h2[0].Queries {
						split = append(split, q.String())
					}
					splitOK = true
				}
			}
		}
		simrt.Fair()
		done := simrt.Expect("StopTask", 3_000_000, time.Hour)
		d.TM.StopTask("B")
		done()
	})
	if v, bad := WorldVerdict(res, false); bad {
		v.Shape = shape
		if strings.HasSuffix(v.Class, ":StopTask") {
			v.Detail = v.Class + ": " + v.Detail
			v.Class = "stop-hangs"
		}
		return v
	}
	if verdict.Class != "" {
		return verdict
	}
	if sc.Undeclared {
		if startErr == nil {
			return Fail("undeclared-dbrp/started", "the query names database otherdb which the task did not declare, yet batching started")
		}
		if len(fi.Queries) > 0 {
			return Fail("undeclared-dbrp/queried", "the query names database otherdb which the task did not declare, yet %d queries were issued", len(fi.Queries))
		}
		n := 0
		for _, l := range listed {
			n += len(l.Queries)
		}
		if listErr == nil && n > 0 {
			return Fail("undeclared-dbrp/listed", "the query names database otherdb which the task did not declare, yet BatchQueries (what a recording of the task runs against InfluxDB) lists %d queries for a 30s span instead of refusing", n)
		}
		return Pass()
	}
	if startErr != nil {
		return Fail("harness/setup", "StartBatching: %v", startErr)
	}
	if len(fi.Queries) == 0 {
		c.Trivial = true
	}
	// the user's own statement, analysed the same way
	userQ := fmt.Sprintf("SELECT mean(\"v\") FROM \"db\".\"rp\".\"m\"")
	if sc.Where != "" {
		userQ += " WHERE " + sc.Where
	}
	userSel, userCond, userTR, err := c16Analyse(userQ)
	if err != nil {
		return Fail("harness/setup", "user query: %v", err)
	}
	P := time.Duration(sc.PeriodS) * time.Second
	E := time.Duration(sc.EveryS) * time.Second
	off := time.Duration(sc.OffsetS) * time.Second
	tol := 60*time.Millisecond + time.Duration(cfg.TimerLateNs) + time.Duration(cfg.StepCostNs)*200
	var stops []time.Time
	for i, rq := range fi.Queries {
		sel, cond, tr, err := c16Analyse(rq.Command)
		if err != nil {
			v := Fail("query/time-bound", "query #%d as InfluxDB parses it: %v\n  query: %s\n  user WHERE: %s", i, err, rq.Command, sc.Where)
			v.Shape = shape
			return v
		}
		// non-time part of the condition, sources, fields are the user's
		if exprString(cond) != exprString(userCond) {
			v := Fail("query/condition-changed", "query #%d: the non-time part of the WHERE clause is %q after re-parsing, the user wrote %q\n  query: %s", i, exprString(cond), exprString(userCond), rq.Command)
			v.Shape = shape
			return v
		}
		if sel.Sources.String() != userSel.Sources.String() || sel.Fields.String() != userSel.Fields.String() {
			return Fail("query/select-changed", "query #%d selects %s from %s, the user wrote %s from %s", i, sel.Fields, sel.Sources, userSel.Fields, userSel.Sources)
		}
		// dimensions and fill
		wantDims := map[string]string{"": "", "time": "time(1s, 0s)", "tag": "host", "star": "*", "time+tag": "time(1s, 0s), host"}[sc.GroupBy]
		if got := sel.Dimensions.String(); got != wantDims {
			return Fail("query/dimensions", "query #%d groups by %q, the task says %q\n  query: %s", i, got, wantDims, rq.Command)
		}
		wantFill := map[string]influxql.FillOption{"": influxql.NullFill, "null": influxql.NullFill, "0": influxql.NumberFill}[sc.Fill]
		if sel.Fill != wantFill {
			return Fail("query/fill", "query #%d has fill option %v, want %v\n  query: %s", i, sel.Fill, wantFill, rq.Command)
		}
		// time range: [stop-P, stop) intersected with the user's own time predicate
		if tr.Min.IsZero() || tr.Max.IsZero() {
			v := Fail("query/time-bound", "query #%d is not bounded on both sides: min=%v max=%v\n  query: %s", i, tr.Min, tr.Max, rq.Command)
			v.Shape = shape
			return v
		}
		stop := tr.Max.Add(time.Nanosecond)
		start := tr.Min
		if !userTR.Min.IsZero() && userTR.Min.After(stop.Add(-P)) {
			// user's lower bound is tighter; cannot happen with the 2020 literal
		} else if stop.Sub(start) != P {
			v := Fail("query/period", "query #%d covers [%s, %s) = %v, period is %v\n  query: %s", i, start.Format(time.RFC3339Nano), stop.Format(time.RFC3339Nano), stop.Sub(start), P, rq.Command)
			v.Shape = shape
			return v
		}
		stops = append(stops, stop)
		// never in the future: tick - offset <= time the query was issued
		issued := time.Unix(0, simrt.Epoch+rq.AtNs)
		tick := stop.Add(off)
		if tick.After(issued.Add(time.Millisecond)) {
			v := Fail("query/early", "query #%d for tick %s was issued at %s, before the tick", i, tick.Format(time.RFC3339Nano), issued.Format(time.RFC3339Nano))
			v.Shape = shape
			return v
		}
		// never stale: if the previous query had been answered before this tick was due, this tick's query goes out
		// promptly (the ticker may drop ticks while the task is busy, it must not fall behind for good)
		if i > 0 && sc.Cron == "" && fi.Queries[i-1].DoneNs > 0 && sc.JumpS == 0 {
			prevDone := time.Unix(0, simrt.Epoch+fi.Queries[i-1].DoneNs)
			if issued.Sub(prevDone) > 300*time.Millisecond && issued.After(tick.Add(250*time.Millisecond)) {
				v := Fail("query/stale", "query #%d for tick %s was issued at %s, %v after the tick, although the previous query had been answered at %s and the task then waited %v for this tick: it was not a tick left over from a busy spell, and timers are at most 50ms late", i, tick.Format(time.RFC3339Nano), issued.Format(time.RFC3339Nano), issued.Sub(tick), prevDone.Format(time.RFC3339Nano), issued.Sub(prevDone))
				v.Shape = shape
				return v
			}
		}
		// tick lies on the schedule lattice
		switch {
		case sc.Cron != "":
			sec := tick.Second()
			okc := tick.Nanosecond() == 0
			switch sc.Cron {
			case "*/5 * * * * * *":
				okc = okc && sec%5 == 0
			case "*/2 * * * * * *":
				okc = okc && sec%2 == 0
			case "*/5 36,37 * * * * *":
				okc = okc && sec%5 == 0 && (tick.Local().Minute() == 36 || tick.Local().Minute() == 37)
			default:
				okc = okc && (sec == 0 || sec == 30)
			}
			if !okc {
				return Fail("tick/off-schedule", "query #%d is for tick %s which is not an occurrence of cron %q", i, tick.Format(time.RFC3339Nano), sc.Cron)
			}
		case sc.Align:
			if tick.Truncate(E) != tick {
				v := Fail("tick/off-schedule", "query #%d is for tick %s which is not a multiple of every=%v although align() is set", i, tick.Format(time.RFC3339Nano), E)
				v.Shape = shape
				return v
			}
		case sc.SlowMs > 0 || sc.ErrEvery > 0 || sc.JumpS > 0 || sc.FailNode || cfg.TimerLateNs > 0:
			// an unaligned tick carries the time at which it was delivered: after a stall or a clock jump that is
			// legitimately off the lattice (it is still in the past and strictly after the previous one, checked above/below)
		default:
			k := tick.Sub(t0) / E
			base := t0.Add(k * E)
			if d := tick.Sub(base); (d > tol && E-d > tol) || tick.Before(t0) {
				return Fail("tick/off-schedule", "query #%d is for tick %s; ticks are due every %v from the start %s (tolerance %v)", i, tick.Format(time.RFC3339Nano), E, t0.Format(time.RFC3339Nano), tol)
			}
		}
	}
	// ticks are never duplicated or reordered; without faults none is skipped
	for i := 1; i < len(stops); i++ {
		if !stops[i].After(stops[i-1]) {
			v := Fail("tick/duplicate-or-reordered", "query #%d ends at %s, query #%d before it ended at %s", i, stops[i].Format(time.RFC3339Nano), i-1, stops[i-1].Format(time.RFC3339Nano))
			v.Shape = shape
			return v
		}
	}
	clean := sc.SlowMs == 0 && sc.ErrEvery == 0 && sc.JumpS == 0 && !sc.FailNode
	if clean && sc.Cron == "" {
		for i := 1; i < len(stops); i++ {
			d := stops[i].Sub(stops[i-1])
			if (sc.Align && d != E) || (!sc.Align && (d < E-tol || d > E+tol)) {
				return Fail("tick/skipped", "consecutive queries end %v apart (%s, %s), every=%v, and nothing was slow", d, stops[i-1].Format(time.RFC3339Nano), stops[i].Format(time.RFC3339Nano), E)
			}
		}
	}
	// the historical list for the same span is what the live ticks issued
	if histErr != nil {
		return Fail("history/error", "BatchQueries(%s, %s): %v", t0.Format(time.RFC3339Nano), t1.Format(time.RFC3339Nano), histErr)
	}
	if sc.TZ != "" {
		c.Counters["obs.tz_cases"]++
		c.Counters["obs.tz_live_queries"] += int64(len(fi.Queries))
		if len(hist) == 1 {
			c.Counters["obs.tz_listed_queries"] += int64(len(hist[0].Queries))
		}
	}
	if splitOK && len(hist) == 1 {
		var whole []string
		for _, q := range hist[0].Queries {
			whole = append(whole, q.String())
		}
		if strings.Join(whole, "\n") != strings.Join(split, "\n") {
			v := Fail("history/not-additive", "BatchQueries(%s, %s) lists %d queries; cut at its own tick %s, BatchQueries(start, cut) and BatchQueries(cut, stop) together list %d:\n  whole: %s\n  parts: %s",
				t0.UTC().Format("15:04:05.000"), t1.UTC().Format("15:04:05.000"), len(whole), splitAt.Format("15:04:05.000"), len(split), diffLines(whole, split), diffLines(split, whole))
			v.Shape = shape
			return v
		}
	}
	if clean && len(hist) == 1 {
		var hs []time.Time
		for _, q := range hist[0].Queries {
			_, _, tr, err := c16Analyse(q.String())
			if err != nil {
				v := Fail("history/time-bound", "historical query as InfluxDB parses it: %v\n  query: %s", err, q.String())
				v.Shape = shape
				return v
			}
			if tr.Max.Add(time.Nanosecond).Sub(tr.Min) != P {
				return Fail("history/period", "historical query covers %v, period is %v: %s", tr.Max.Add(time.Nanosecond).Sub(tr.Min), P, q.String())
			}
			hs = append(hs, tr.Max.Add(time.Nanosecond))
		}
		// compare the ticks that lie safely inside the span
		inside := func(ts []time.Time) []time.Time {
			var out []time.Time
			for _, s := range ts {
				tick := s.Add(off)
				if tick.After(t0.Add(tol)) && tick.Before(t1.Add(-tol-time.Duration(sc.SlowMs)*time.Millisecond)) {
					out = append(out, s)
				}
			}
			return out
		}
		live, his := inside(stops), inside(hs)
		mismatch := len(live) != len(his)
		for i := 0; !mismatch && i < len(live); i++ {
			d := live[i].Sub(his[i])
			if d < 0 {
				d = -d
			}
			if (sc.Align || sc.Cron != "") && d != 0 || d > tol {
				mismatch = true
			}
		}
		if mismatch {
			v := Fail("history/differs-from-live", "BatchQueries(start=%s, stop=%s) lists query end times %s; the live ticks in that span issued %s (every=%v cron=%q align=%v offset=%v)",
				t0.Format("15:04:05.000"), t1.Format("15:04:05.000"), fmtTimes(his), fmtTimes(live), E, sc.Cron, sc.Align, off)
			v.Shape = shape
			return v
		}
	}
	return Pass()
}

func exprString(e influxql.Expr) string {
	if e == nil {
		return ""
	}
	return e.String()
}

func fmtTimes(ts []time.Time) string {
	var ss []string
	for _, t := range ts {
		ss = append(ss, t.UTC().Format("15:04:05.000"))
	}
	return "[" + strings.Join(ss, " ") + "]"
}

func init() {
	Register(&Prop{
		ID:  "C16",
		Run: runC16,
		Rule: "case = a batch task with one of 7 WHERE shapes (none, AND/OR nests with and without parentheses, regex, an existing time predicate) x period 1s-1m x every 1-10s (aligned or not) or cron (also on a server whose local zone is 5h30 ahead of UTC, with a schedule that names the minute) x offset 0/1s/30s x groupBy none/time/tag/*/time+tag x fill x a seeded start phase (0-10s) x 8-45s of virtual run time, against a fake InfluxDB with seeded latency (for every query or only for the first 1-3), errors, a forward clock jump, late timers, an optionally failing downstream node, and an optionally undeclared database (named directly or inside a subquery); " +
			"the historical list of the whole span must equal the lists of its two halves when it is cut at one of its own ticks; (round 3) every also 7s and 11s (which do not divide the distance between year 1 and 1970, so that 'aligned' depends on the origin), and an undeclared retention policy of a declared database as the second source of the query; " +
			"non-trivial = at least one query was issued; distinct = distinct (scenario, interleaving signature) pairs",
		Real:        []string{"BatchNode, QueryNode (doQuery, Queries, runBatch, stopBatch), timeTicker, cronTicker", "Query (NewQuery, Clone, Dimensions, Fill, SetStartTime/SetStopTime)", "ExecutingTask.StartBatching/BatchQueries/checkDBRPs", "TaskMaster StartTask/StopTask, edges, LogNode, AlertNode (failing node variant)", "influxql (uninstrumented) to re-parse every query the way InfluxDB would"},
		Stub:        []string{"InfluxDB client on the existing seam: records queries with the virtual time of issue; seeded latency and errors", "libflux C stub (never called)"},
		Assumptions: []string{"tick times carry the scheduling latency of the virtual clock (tolerance 60ms + timer lateness + 200 steps) for unaligned every(); aligned and cron ticks are compared exactly", "the historical list is compared with live ticks only in fault-free runs and only for ticks safely inside the span", "cron occurrences are checked against the three generated expressions"},
	})
}
