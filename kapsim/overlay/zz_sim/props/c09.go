package props

import (
	"fmt"
	"sort"
	"strings"
	"sync"
	"time"

	"github.com/influxdata/kapacitor/alert"
	alertservice "github.com/influxdata/kapacitor/services/alert"
	"github.com/influxdata/kapacitor/zz_deps/porcupine"
	"github.com/influxdata/kapacitor/zz_sim/harness"
	"github.com/influxdata/kapacitor/zz_sim/simrt"
)

// C09 — topic state and handler delivery are consistent with the event history.

type c09Event struct {
	Topic string `json:"t"`
	ID    string `json:"id"`
	Level int    `json:"lvl"`
	DurS  int    `json:"dur_s"`
}

type c09Spec struct {
	Topic   string `json:"topic"`
	Kind    string `json:"kind"` // publish | aggregate
	Match   int    `json:"match"`
	Static  bool   `json:"static"`
	Replace int    `json:"replace_match"`             // dynamic: match index after update (-1: none)
	Rename  bool   `json:"replace_renames,omitempty"` // the update also gives the handler another id
	Remove  bool   `json:"remove"`
}

type c09Scenario struct {
	Publishers         [][]c09Event `json:"publishers"`
	Readers            [][]string   `json:"readers"` // "state:t0" | "events:t0:2"
	Specs              []c09Spec    `json:"specs"`
	UpdateMissingTopic bool         `json:"update_event_on_missing_topic"`
	SlowUs             int          `json:"slow_handler_us"`
	PaceMs             int          `json:"publisher_pace_ms,omitempty"` // virtual pause between a publisher's events: they then fall into several aggregate intervals
	AnonChurn          int          `json:"anon_churn"`
	Config             string       `json:"config"`
}

var c09Matches = []string{
	"",
	"level() >= WARNING",
	"changed() == TRUE",
	"level() == CRITICAL AND changed() == TRUE",
	"taskName() == 'task0'",
	"\"host\" == 'e1'",
	"alertDuration() > 5s",
	"name() == 'cpu' AND level() != INFO",
}

func c09Match(i int, lvl, prev alert.Level, task, host string, dur time.Duration) bool {
	switch i {
	case 0:
		return true
	case 1:
		return lvl >= alert.Warning
	case 2:
		return lvl != prev
	case 3:
		return lvl == alert.Critical && lvl != prev
	case 4:
		return task == "task0"
	case 5:
		return host == "e1"
	case 6:
		return dur > 5*time.Second
	case 7:
		return lvl != alert.Info
	}
	return false
}

func c09Gen(c *Ctx) *c09Scenario {
	g := c.G
	sc := &c09Scenario{}
	np := g.Range(1, 3)
	nid := g.Range(2, 4)
	maxEv := 10
	if c.Thorough() {
		maxEv = 18
	}
	for p := 0; p < np; p++ {
		n := g.Range(1, maxEv)
		var evs []c09Event
		for i := 0; i < n; i++ {
			evs = append(evs, c09Event{Topic: []string{"t0", "t0", "t1", "t2"}[g.Intn(4)], ID: fmt.Sprintf("e%d", g.Intn(nid)), Level: g.Intn(4), DurS: g.Intn(10)})
		}
		sc.Publishers = append(sc.Publishers, evs)
	}
	nr := g.Range(0, 2)
	for r := 0; r < nr; r++ {
		n := g.Range(1, 8)
		var ops []string
		for i := 0; i < n; i++ {
			t := []string{"t0", "t1", "t2"}[g.Intn(3)]
			if g.Bool() {
				ops = append(ops, "state:"+t)
			} else {
				ops = append(ops, fmt.Sprintf("events:%s:%d", t, g.Intn(4)))
			}
		}
		sc.Readers = append(sc.Readers, ops)
	}
	ns := g.Range(0, 3)
	for i := 0; i < ns; i++ {
		s := c09Spec{Topic: []string{"t0", "t1"}[g.Intn(2)], Kind: "publish", Match: g.Intn(len(c09Matches)), Static: true, Replace: -1}
		if g.Chance(1, 3) {
			s.Kind = "aggregate"
		}
		if g.Chance(1, 3) {
			s.Static = false
			if g.Bool() {
				s.Replace = g.Intn(len(c09Matches))
				s.Rename = g.Bool()
			}
			s.Remove = g.Bool()
		}
		sc.Specs = append(sc.Specs, s)
	}
	// t2 has no handler: it only comes into existence with the first event collected on it; in a third of the
	// cases every publisher opens with an event on it, so that several tasks race to create the topic
	if g.Chance(1, 3) {
		for p := range sc.Publishers {
			sc.Publishers[p][0].Topic = "t2"
		}
	}
	sc.UpdateMissingTopic = g.Chance(1, 6)
	if !c.FaultFree && g.Chance(1, 3) {
		sc.SlowUs = []int{1, 100, 5000}[g.Intn(3)]
	}
	if g.Chance(1, 3) {
		sc.AnonChurn = g.Range(1, 4)
	}
	if g.Chance(1, 3) {
		sc.PaceMs = []int{300, 700, 1100}[g.Intn(3)]
	}
	return sc
}

// ---- porcupine model of one topic ----

type c09In struct {
	op    int // 0 collect, 1 topicState, 2 eventStates
	id    int
	level int
	min   int
}

type c09Out struct {
	prev   int // collect: observed previous level, -1 unknown
	level  int // topicState
	exists bool
	events [4]int // eventStates: level per id or -1
}

type c09State [4]int // level per id, -1 = never seen

var c09Model = porcupine.Model{
	Init: func() interface{} { return c09State{-1, -1, -1, -1} },
	Step: func(state, input, output interface{}) (bool, interface{}) {
		st := state.(c09State)
		in := input.(c09In)
		out := output.(c09Out)
		switch in.op {
		case 0:
			prev := st[in.id]
			if prev < 0 {
				prev = 0 // no previous event: previous level reads as OK
			}
			if out.prev >= 0 && out.prev != prev {
				return false, st
			}
			st[in.id] = in.level
			return true, st
		case 1:
			max := 0
			for _, l := range st {
				if l > max {
					max = l
				}
			}
			return out.level == max, st
		case 2:
			for i, l := range st {
				want := -1
				if l >= 0 && l >= in.min {
					want = l
				}
				if out.events[i] != want {
					return false, st
				}
			}
			return true, st
		}
		return false, st
	},
	Equal: func(a, b interface{}) bool { return a.(c09State) == b.(c09State) },
	DescribeOperation: func(input, output interface{}) string {
		in := input.(c09In)
		out := output.(c09Out)
		switch in.op {
		case 0:
			return fmt.Sprintf("collect(e%d, lvl=%d) prev=%d", in.id, in.level, out.prev)
		case 1:
			return fmt.Sprintf("topicState() -> %d", out.level)
		default:
			return fmt.Sprintf("eventStates(min=%d) -> %v", in.min, out.events)
		}
	},
}

type c09Collect struct {
	p, seq    int
	ev        c09Event
	msg       string
	call, ret int64
	err       bool
	failed    int // number of handlers the returned error speaks of
}

// c09Failed counts the handler failures an error returned by Collect stands for: one per line
// (the present "multiple errors:" header is not counted), at least one.
func c09Failed(err error) int {
	n := 0
	for _, l := range strings.Split(err.Error(), "\n") {
		if strings.TrimSpace(l) != "" && strings.TrimSpace(l) != "multiple errors:" {
			n++
		}
	}
	if n == 0 {
		n = 1
	}
	return n
}

// ---- a topic that is deleted and comes into being again under the same name ----
// (what happens to the topics of a task that is disabled and enabled again, or deleted and defined again)

type c09RStep struct {
	Kind  string `json:"kind"` // register | event | delete | close
	Topic string `json:"topic"`
	ID    string `json:"id,omitempty"`
	Level int    `json:"lvl,omitempty"`
}

type c09RecreateScenario struct {
	Kind   string     `json:"kind"`
	Steps  []c09RStep `json:"steps"`
	Config string     `json:"config"`
}

func runC09Recreate(c *Ctx) Verdict {
	g := c.G
	sc := &c09RecreateScenario{Kind: "a topic is deleted and created again"}
	topics := []string{"r0", "r1"}
	sc.Steps = append(sc.Steps, c09RStep{Kind: "register", Topic: "r0"})
	n := g.Range(4, 14)
	for i := 0; i < n; i++ {
		switch k := g.Intn(10); {
		case k == 0:
			sc.Steps = append(sc.Steps, c09RStep{Kind: "register", Topic: topics[g.Intn(2)]})
		case k <= 2:
			// deleted (or closed, as a stopping task does) and, mostly, registered on again right away
			tp := []string{"r0", "r0", "r1"}[g.Intn(3)]
			sc.Steps = append(sc.Steps, c09RStep{Kind: []string{"delete", "close"}[g.Intn(2)], Topic: tp})
			if g.Chance(3, 4) {
				sc.Steps = append(sc.Steps, c09RStep{Kind: "register", Topic: tp})
			}
		default:
			sc.Steps = append(sc.Steps, c09RStep{Kind: "event", Topic: []string{"r0", "r0", "r0", "r1"}[g.Intn(4)], ID: fmt.Sprintf("e%d", g.Intn(3)), Level: g.Intn(4)})
		}
	}
	c.Scenario = sc
	cfg := c.WorldConfig()
	delete(cfg.Knobs, "MinimumEventBufferSize")
	delete(cfg.Knobs, "DefaultEventBufferSize")
	sc.Config = fmt.Sprintf("%v p=%.2f", cfg.Strategy, cfg.SwitchProb)
	cfg.MaxSteps = 2_000_000
	var verdict Verdict
	type gen struct {
		rec  *harness.RecHandler
		want []string // messages owed to this handler
	}
	var gens []*gen
	res := c.World(cfg, func() {
		d, err := harness.NewDaemon(harness.DaemonOpts{})
		if err != nil {
			verdict = Fail("harness/setup", "daemon: %v", err)
			return
		}
		live := map[string][]*gen{}                   // topic -> handlers registered since it last came into being
		states := map[string]map[string]alert.Level{} // topic -> id -> level since it last came into being
		base := time.Unix(0, simrt.Epoch).UTC()
		for i, st := range sc.Steps {
			switch st.Kind {
			case "register":
				gn := &gen{rec: &harness.RecHandler{Name: fmt.Sprintf("%s#%d", st.Topic, i)}}
				gens = append(gens, gn)
				live[st.Topic] = append(live[st.Topic], gn)
				d.Alert.RegisterAnonHandler(st.Topic, gn.rec)
			case "delete":
				if err := d.Alert.DeleteTopic(st.Topic); err != nil {
					verdict = Fail("harness/setup", "DeleteTopic: %v", err)
					return
				}
				live[st.Topic], states[st.Topic] = nil, nil
			case "close":
				d.Alert.CloseTopic(st.Topic)
				live[st.Topic], states[st.Topic] = nil, nil
			case "event":
				msg := fmt.Sprintf("step%d", i)
				ev := alert.Event{Topic: st.Topic,
					State: alert.EventState{ID: st.ID, Message: msg, Level: alert.Level(st.Level), Time: base.Add(time.Duration(i) * time.Second)},
					Data:  alert.EventData{Name: "cpu", TaskName: "task0", Tags: map[string]string{"host": st.ID}}}
				if err := d.Alert.Collect(ev); err != nil {
					verdict = Fail("delivery/rejected", "step %d: collecting an event on topic %s failed: %v", i, st.Topic, err)
					return
				}
				for _, gn := range live[st.Topic] {
					gn.want = append(gn.want, msg)
				}
				if states[st.Topic] == nil {
					states[st.Topic] = map[string]alert.Level{}
				}
				states[st.Topic][st.ID] = alert.Level(st.Level)
			}
			// the topic's level and event states are those of the events collected since it last came into being
			for _, tp := range topics {
				max := alert.OK
				for _, l := range states[tp] {
					if l > max {
						max = l
					}
				}
				ts, ok, _ := d.Alert.TopicState(tp)
				if !ok {
					if max != alert.OK {
						verdict = Fail("state/recreated-topic", "after step %d (%+v): topic %s is unknown to the service although its ids are at %v", i, st, tp, states[tp])
						return
					}
					continue
				}
				if ts.Level != max {
					verdict = Fail("state/recreated-topic", "after step %d (%+v): topic %s reports level %v; the events collected on it since it last came into being leave its ids at %v", i, st, tp, ts.Level, states[tp])
					return
				}
				for id := 0; id < 3; id++ {
					es, ok, _ := d.Alert.EventState(tp, fmt.Sprintf("e%d", id))
					want, has := states[tp][fmt.Sprintf("e%d", id)]
					if ok != has || (ok && es.Level != want) {
						verdict = Fail("state/recreated-topic", "after step %d (%+v): topic %s id e%d: service says level %v (known=%v), the events since the topic last came into being say %v (known=%v)", i, st, tp, id, es.Level, ok, want, has)
						return
					}
				}
			}
		}
		simrt.Fair()
		simrt.WaitIdle()
	})
	if v, bad := WorldVerdict(res, false); bad {
		return v
	}
	if verdict.Class != "" {
		return verdict
	}
	owed := 0
	for _, gn := range gens {
		var got []string
		for _, e := range gn.rec.Events {
			got = append(got, e.Message)
		}
		owed += len(gn.want)
		if strings.Join(got, " ") != strings.Join(gn.want, " ") {
			return Fail("delivery/recreated-topic", "handler %s (registered at the step in its name, on the topic as it was then) received %v; the events collected on its topic while it was registered are %v", gn.rec.Name, got, gn.want)
		}
	}
	if owed == 0 {
		c.Trivial = true
	}
	return Pass()
}

func runC09(c *Ctx) Verdict {
	if c.G.Chance(1, 8) {
		return runC09Recreate(c)
	}
	sc := c09Gen(c)
	c.Scenario = sc
	cfg := c.WorldConfig()
	if cfg.Strategy == simrt.StratStarve {
		cfg.StarveRole = []string{"alert/topics.go", "c09.go"}[c.G.Intn(2)]
	}
	sc.Config = fmt.Sprintf("%v p=%.2f knobs=%v", cfg.Strategy, cfg.SwitchProb, cfg.Knobs)
	cfg.MaxSteps = 3_000_000

	var verdict Verdict
	var d *harness.Daemon
	closedEarly := false
	recs := map[string]*harness.RecHandler{}
	for _, t := range []string{"t0", "t1", "pub", "agg"} {
		recs[t] = &harness.RecHandler{Name: "R_" + t}
	}
	// a second, never delayed handler per topic, registered after every other handler of the topic
	recs2 := map[string]*harness.RecHandler{"t0": {Name: "R2_t0"}, "t1": {Name: "R2_t1"}}
	churnRec := &harness.RecHandler{Name: "R_churn"}
	var collects []*c09Collect
	ops := map[string][]porcupine.Operation{}
	type pending struct {
		topic string
		in    c09In
		out   c09Out
		call  int64
		ret   int64
		cl    *c09Collect
		cid   int
	}
	var hist []*pending
	var churnWindows [][2]int64 // [registered-returned, deregister-called]
	base := time.Date(2021, 1, 1, 0, 0, 0, 0, time.UTC)

	res := c.World(cfg, func() {
		var err error
		d, err = harness.NewDaemon(harness.DaemonOpts{})
		if err != nil {
			verdict = Fail("harness/setup", "daemon: %v", err)
			return
		}
		slow := func() {
			if sc.SlowUs > 0 && simrt.Chance(1, 3) {
				time.Sleep(time.Duration(sc.SlowUs) * time.Microsecond)
				simrt.Count("fault.handler.slow")
			}
		}
		for _, t := range []string{"t0", "t1", "pub", "agg"} {
			recs[t].Delay = slow
			d.Alert.RegisterAnonHandler(t, recs[t])
		}
		specID := func(i int) string { return fmt.Sprintf("s%d", i) }
		mkSpec := func(i int, s c09Spec, match int) alertservice.HandlerSpec {
			hs := alertservice.HandlerSpec{ID: specID(i), Topic: s.Topic, Kind: s.Kind, Match: c09Matches[match]}
			if s.Kind == "publish" {
				hs.Options = map[string]interface{}{"topics": []string{"pub"}}
			} else {
				hs.Options = map[string]interface{}{"id": "agg" + specID(i), "interval": time.Second, "topic": "agg"}
			}
			return hs
		}
		for i, s := range sc.Specs {
			if s.Static {
				if err := d.Alert.RegisterHandlerSpec(mkSpec(i, s, s.Match)); err != nil {
					verdict = Fail("harness/setup", "register spec: %v", err)
					return
				}
			}
		}
		for _, t := range []string{"t0", "t1"} {
			d.Alert.RegisterAnonHandler(t, recs2[t])
		}
		var wg sync.WaitGroup
		for p, evs := range sc.Publishers {
			wg.Add(1)
			go func(p int, evs []c09Event) {
				defer wg.Done()
				for i, e := range evs {
					cl := &c09Collect{p: p, seq: i, ev: e, msg: fmt.Sprintf("p%d/%d", p, i)}
					collects = append(collects, cl)
					ev := alert.Event{
						Topic: e.Topic,
						State: alert.EventState{ID: e.ID, Message: cl.msg, Level: alert.Level(e.Level), Time: base.Add(time.Duration(p*1000+i) * time.Second), Duration: time.Duration(e.DurS) * time.Second},
						Data:  alert.EventData{Name: "cpu", TaskName: fmt.Sprintf("task%d", p), Tags: map[string]string{"host": e.ID}},
					}
					var idn int
					fmt.Sscanf(e.ID, "e%d", &idn)
					pd := &pending{topic: e.Topic, in: c09In{op: 0, id: idn, level: e.Level}, out: c09Out{prev: -1}, cl: cl, cid: p}
					hist = append(hist, pd)
					pd.call = simrt.Stamp()
					cl.call = pd.call
					err := d.Alert.Collect(ev)
					pd.ret = simrt.Stamp()
					cl.ret = pd.ret
					cl.err = err != nil
					if err != nil {
						simrt.Count("obs.collect_error")
						cl.failed = c09Failed(err)
					}
					if sc.PaceMs > 0 {
						time.Sleep(time.Duration(sc.PaceMs) * time.Millisecond)
					}
				}
			}(p, evs)
		}
		for r, rops := range sc.Readers {
			wg.Add(1)
			go func(r int, rops []string) {
				defer wg.Done()
				for _, op := range rops {
					parts := strings.Split(op, ":")
					pd := &pending{topic: parts[1], cid: 100 + r}
					pd.call = simrt.Stamp()
					if parts[0] == "state" {
						st, ok, _ := d.Alert.TopicState(parts[1])
						pd.in = c09In{op: 1}
						pd.out = c09Out{level: int(st.Level), exists: ok}
					} else {
						var min int
						fmt.Sscanf(parts[2], "%d", &min)
						es, err := d.Alert.EventStates(parts[1], alert.Level(min))
						pd.in = c09In{op: 2, min: min}
						out := c09Out{events: [4]int{-1, -1, -1, -1}}
						if err == nil {
							for id, s := range es {
								var idn int
								fmt.Sscanf(id, "e%d", &idn)
								out.events[idn] = int(s.Level)
							}
						}
						pd.out = out
					}
					pd.ret = simrt.Stamp()
					hist = append(hist, pd)
				}
			}(r, rops)
		}
		// registrar: dynamic specs and anonymous handler churn
		wg.Add(1)
		go func() {
			defer wg.Done()
			for i, s := range sc.Specs {
				if s.Static {
					continue
				}
				if err := d.Alert.RegisterHandlerSpec(mkSpec(i, s, s.Match)); err != nil {
					verdict = Fail("harness/setup", "register dynamic spec: %v", err)
					return
				}
				simrt.Count("probe.spec_registered_midway")
				cur := s.Match
				id := specID(i)
				if s.Replace >= 0 {
					ns := mkSpec(i, s, s.Replace)
					if s.Rename {
						ns.ID += "r"
						id = ns.ID
						simrt.Count("probe.spec_renamed_midway")
					}
					if err := d.Alert.UpdateHandlerSpec(mkSpec(i, s, cur), ns); err != nil {
						verdict = Fail("harness/setup", "update spec: %v", err)
						return
					}
					cur = s.Replace
					simrt.Count("probe.spec_replaced_midway")
				}
				if s.Remove {
					done := simrt.Expect("DeregisterHandlerSpec", 2_000_000, time.Hour)
					if err := d.Alert.DeregisterHandlerSpec(s.Topic, id); err != nil {
						verdict = Fail("harness/setup", "deregister spec: %v", err)
						return
					}
					done()
					simrt.Count("probe.spec_removed_midway")
				}
			}
			for k := 0; k < sc.AnonChurn; k++ {
				d.Alert.RegisterAnonHandler("t0", churnRec)
				a := simrt.Stamp()
				for y := 0; y < 20; y++ {
					simrt.Yield()
				}
				b := simrt.Stamp()
				done := simrt.Expect("DeregisterAnonHandler", 2_000_000, time.Hour)
				d.Alert.DeregisterAnonHandler("t0", churnRec)
				done()
				churnWindows = append(churnWindows, [2]int64{a, b})
			}
		}()
		if sc.UpdateMissingTopic {
			wg.Add(1)
			go func() {
				defer wg.Done()
				// what AlertNode.restoreEvent does for a named topic that does not exist yet
				d.Alert.UpdateEvent("fresh-topic", alert.EventState{ID: "e0", Level: alert.Warning, Message: "restored"})
				simrt.Count("probe.update_event_on_missing_topic")
			}()
		}
		done := simrt.Expect("publishers, readers and registrar finish", 3_000_000, 2*time.Hour)
		wg.Wait()
		done()
		closeEarly := len(sc.Publishers[0])%2 == 1
		defer func() { closedEarly = closeEarly }()
		for _, sp := range sc.Specs {
			if sp.Kind == "aggregate" {
				closeEarly = false // (what an aggregate handler owes for an interval cut short by a shutdown is not stated)
			}
		}
		if closeEarly {
			// the daemon shuts down while handlers still have events queued: closing the service hands them over first
			simrt.Count("probe.service_closed_with_handler_backlog")
			done := simrt.Expect("alert service close", 3_000_000, 24*time.Hour)
			d.Alert.Close()
			done()
			simrt.Fair()
			simrt.WaitIdle()
			return
		}
		simrt.Fair()
		simrt.WaitIdle()
		// let aggregate intervals elapse
		time.Sleep(2500 * time.Millisecond)
		simrt.WaitIdle()
		// final reads of every topic: whatever was collected must be there now
		for _, t := range []string{"t0", "t1", "t2"} {
			pd := &pending{topic: t, cid: 200, in: c09In{op: 1}}
			pd.call = simrt.Stamp()
			st, ok, _ := d.Alert.TopicState(t)
			pd.out = c09Out{level: int(st.Level), exists: ok}
			pd.ret = simrt.Stamp()
			hist = append(hist, pd)
			pd = &pending{topic: t, cid: 200, in: c09In{op: 2, min: 0}}
			pd.call = simrt.Stamp()
			out := c09Out{events: [4]int{-1, -1, -1, -1}}
			if es, err := d.Alert.EventStates(t, alert.OK); err == nil {
				for id, s := range es {
					var idn int
					fmt.Sscanf(id, "e%d", &idn)
					out.events[idn] = int(s.Level)
				}
			}
			pd.out = out
			pd.ret = simrt.Stamp()
			hist = append(hist, pd)
		}
		// "at any time" includes right after a restore: the final states of every topic, restored into a
		// fresh set of topics the way the service does at start-up, must give the same level and listings
		for _, t := range []string{"t0", "t1", "t2"} {
			es, err := d.Alert.EventStates(t, alert.OK)
			if err != nil || len(es) == 0 || verdict.Class != "" {
				continue
			}
			twin := alert.NewTopics(0)
			in := make(map[string]*alert.EventState, len(es))
			max := alert.OK
			for id, s := range es {
				s := s
				in[id] = &s
				if s.Level > max {
					max = s.Level
				}
			}
			twin.RestoreTopicNoCopy(t, in)
			tt, ok := twin.Topic(t)
			if !ok {
				verdict = Fail("state/restored", "topic %s does not exist after its %d event states were restored", t, len(es))
			} else if got := tt.MaxLevel(); got != max {
				verdict = Fail("state/restored", "topic %s restored from the event states %v reports level %v, the highest level among them is %v", t, c09Levels(es), got, max)
			} else {
				for min := alert.OK; min <= alert.Critical && verdict.Class == ""; min++ {
					got := tt.EventStates(min)
					for id, s := range es {
						if _, listed := got[id]; listed != (s.Level >= min) {
							verdict = Fail("state/restored", "topic %s restored from the event states %v: listing with minimum level %v shows id %s = %v (level %v)", t, c09Levels(es), min, id, listed, s.Level)
							break
						}
					}
				}
			}
			twin.Close()
		}
	})
	dynRemoved, dynReplaced := 0, 0
	for _, s := range sc.Specs {
		if !s.Static && s.Remove {
			dynRemoved++
		}
		if !s.Static && s.Replace >= 0 {
			dynReplaced++
		}
	}
	if v, bad := WorldVerdict(res, false); bad {
		v.Shape = map[string]interface{}{"update_event_on_missing_topic": sc.UpdateMissingTopic, "dyn_specs_changed": dynRemoved + dynReplaced}
		if strings.HasPrefix(v.Class, "deadlock") || strings.HasPrefix(v.Class, "hang:") {
			v.Detail = v.Class + ": " + v.Detail
			v.Class = "blocked-forever"
		}
		return v
	}
	if verdict.Class != "" {
		return verdict
	}

	// ---- join collects with what the always-on handler of their topic saw ----
	byMsg := map[string]*c09Collect{}
	for _, cl := range collects {
		byMsg[cl.msg] = cl
	}
	type seenEv struct {
		lvl, prev alert.Level
	}
	observed := map[string]seenEv{}
	for _, t := range []string{"t0", "t1"} {
		got := map[string]int{} // event -> number of the topic's two always-on handlers that received it
		for hi, rec := range []*harness.RecHandler{recs[t], recs2[t]} {
			count := map[string]int{}
			lastSeq := map[int]int{}
			for _, e := range rec.Events {
				cl := byMsg[e.Message]
				if cl == nil {
					return Fail("delivery/foreign", "handler %s on %s received an event nobody published there: %+v", rec.Name, t, e)
				}
				if cl.ev.Topic != t || e.Topic != t {
					return Fail("delivery/wrong-topic", "handler %s registered on %s received event %s collected on %s (event.Topic=%s)", rec.Name, t, e.Message, cl.ev.Topic, e.Topic)
				}
				count[e.Message]++
				got[e.Message]++
				if count[e.Message] > 1 {
					return Fail("delivery/duplicate", "handler %s on %s received event %s twice", rec.Name, t, e.Message)
				}
				if ls, ok := lastSeq[cl.p]; ok && ls > cl.seq {
					return Fail("delivery/order", "handler %s on %s received publisher %d's event #%d after #%d", rec.Name, t, cl.p, cl.seq, ls)
				}
				lastSeq[cl.p] = cl.seq
				if int(e.Level) != cl.ev.Level || e.ID != cl.ev.ID {
					return Fail("delivery/corrupt", "event %s arrived as id=%s level=%v, published as %+v", e.Message, e.ID, e.Level, cl.ev)
				}
				if hi == 0 || observed[e.Message] == (seenEv{}) {
					observed[e.Message] = seenEv{e.Level, e.Prev}
				}
			}
			for _, cl := range collects {
				if cl.ev.Topic == t && !cl.err && count[cl.msg] == 0 {
					return Fail("delivery/lost", "event %s was collected on %s without error but never handed to handler %s, registered there for the whole run", cl.msg, t, rec.Name)
				}
			}
		}
		// a Collect that reported f handler failures (full queues) may have skipped at most f handlers
		for _, cl := range collects {
			if cl.ev.Topic == t && cl.err && 2-got[cl.msg] > cl.failed {
				return Fail("delivery/starved", "collecting event %s on %s reported %d handler failure(s) (full queue), but %d of the topic's two always-registered handlers never received it: a handler whose own queue had room was skipped", cl.msg, t, cl.failed, 2-got[cl.msg])
			}
		}
	}
	// anonymous handler churn: subset, no duplicates, per-publisher order, complete inside its windows
	{
		count := map[string]int{}
		lastSeq := map[int]int{}
		for _, e := range churnRec.Events {
			cl := byMsg[e.Message]
			if cl == nil || cl.ev.Topic != "t0" {
				return Fail("delivery/wrong-topic", "churned handler on t0 received %+v", e)
			}
			count[e.Message]++
			if count[e.Message] > 1 {
				return Fail("delivery/duplicate", "churned handler received %s twice", e.Message)
			}
			if ls, ok := lastSeq[cl.p]; ok && ls > cl.seq {
				return Fail("delivery/order", "churned handler received publisher %d's #%d after #%d", cl.p, cl.seq, ls)
			}
			lastSeq[cl.p] = cl.seq
		}
		for _, w := range churnWindows {
			for _, cl := range collects {
				if cl.ev.Topic == "t0" && !cl.err && cl.call > w[0] && cl.ret < w[1] && count[cl.msg] == 0 {
					return Fail("delivery/lost", "event %s was collected on t0 entirely while the churned handler was registered, yet never handed to it", cl.msg)
				}
			}
		}
	}

	// ---- linearizability of the state API, per topic ----
	for _, pd := range hist {
		if pd.cl != nil {
			if o, ok := observed[pd.cl.msg]; ok {
				pd.out.prev = int(o.prev)
			}
		}
		ops[pd.topic] = append(ops[pd.topic], porcupine.Operation{ClientId: pd.cid, Input: pd.in, Call: pd.call, Output: pd.out, Return: pd.ret})
	}
	nonTrivial := false
	for _, t := range []string{"t0", "t1", "t2"} {
		h := ops[t]
		if len(h) == 0 {
			continue
		}
		if len(h) > 70 {
			h = h[:70]
		}
		if len(h) >= 3 {
			nonTrivial = true
		}
		r, info := porcupine.CheckOperationsVerbose(c09Model, h, 20*time.Second)
		_ = info
		switch r {
		case porcupine.Illegal:
			var sb strings.Builder
			sort.Slice(h, func(i, j int) bool { return h[i].Call < h[j].Call })
			for _, o := range h {
				fmt.Fprintf(&sb, "  [%d..%d] c%d %s\n", o.Call, o.Return, o.ClientId, c09Model.DescribeOperation(o.Input, o.Output))
			}
			v := Fail("state/not-linearizable", "history of topic %s admits no linearization against the reference model (TopicState = max level of current event states, EventStates(min) = exactly the events >= min, previous level = level of the preceding event of that ID):\n%s", t, sb.String())
			return v
		case porcupine.Unknown:
			c.Counters["porcupine.unknown"]++
		default:
			c.Counters["porcupine.ok"]++
		}
	}

	// ---- publish / aggregate ----
	dynPublish := 0
	type stat struct {
		topic string
		match int
	}
	var staticPub []stat
	staticAgg := 0
	dynAgg := 0
	for _, s := range sc.Specs {
		switch {
		case s.Kind == "publish" && s.Static:
			staticPub = append(staticPub, stat{s.Topic, s.Match})
		case s.Kind == "publish":
			dynPublish++
		case s.Static:
			staticAgg++
		default:
			dynAgg++
		}
	}
	pubCount := map[string]int{}
	for _, e := range recs["pub"].Events {
		if e.Topic != "pub" {
			return Fail("publish/wrong-topic", "handler on pub received an event with Topic=%s", e.Topic)
		}
		if byMsg[e.Message] == nil {
			return Fail("publish/foreign", "handler on pub received unknown event %+v", e)
		}
		pubCount[e.Message]++
	}
	for _, cl := range collects {
		o, seen := observed[cl.msg]
		lo := 0
		if seen && !cl.err {
			for _, sp := range staticPub {
				if sp.topic == cl.ev.Topic && c09Match(sp.match, o.lvl, o.prev, fmt.Sprintf("task%d", cl.p), cl.ev.ID, time.Duration(cl.ev.DurS)*time.Second) {
					lo++
				}
			}
		}
		hi := lo + dynPublish
		if !seen || cl.err {
			hi = len(staticPub) + dynPublish
			lo = 0
		}
		got := pubCount[cl.msg]
		if _, shrunk := cfg.Knobs["DefaultEventBufferSize"]; shrunk {
			// the second-hop Collect (on the publish target) may legitimately overflow a shrunk queue; its
			// error is not visible to the first publisher, so only the upper bound is checked then
			lo = 0
		}
		if got < lo {
			v := Fail("publish/lost", "event %s (level %d, prev %v) matches %d publish handler(s) registered for the whole run on %s but was republished %d time(s)", cl.msg, cl.ev.Level, o.prev, lo, cl.ev.Topic, got)
			v.Shape = map[string]interface{}{"service_closed_with_handler_backlog": closedEarly}
			return v
		}
		if got > hi {
			return Fail("publish/duplicate", "event %s was republished %d times; at most %d publish handlers could match it", cl.msg, got, hi)
		}
	}
	// aggregate conservation: every aggregate event accounts for exactly the events listed in its details
	aggSeen := map[string]int{}
	for _, e := range recs["agg"].Events {
		var n int
		if _, err := fmt.Sscanf(e.Message, "Received %d events", &n); err != nil {
			return Fail("aggregate/corrupt", "aggregate event with message %q", e.Message)
		}
		members := strings.Split(e.Details, "\n")
		if e.Details == "" {
			members = nil
		}
		if n != len(members) {
			return Fail("aggregate/count", "aggregate event says %d events but lists %d", n, len(members))
		}
		max := alert.OK
		for _, m := range members {
			cl := byMsg[m]
			if cl == nil {
				return Fail("aggregate/foreign", "aggregate event lists unknown member %q", m)
			}
			aggSeen[m]++
			if alert.Level(cl.ev.Level) > max {
				max = alert.Level(cl.ev.Level)
			}
		}
		if e.Level != max {
			return Fail("aggregate/level", "aggregate event over %v has level %v, want the maximum %v", members, e.Level, max)
		}
	}
	for m, n := range aggSeen {
		if n > staticAgg+dynAgg {
			return Fail("aggregate/duplicate", "event %s was aggregated %d times by %d aggregate handlers", m, n, staticAgg+dynAgg)
		}
	}
	if _, shrunk := cfg.Knobs["DefaultEventBufferSize"]; staticAgg > 0 && !shrunk {
		for _, cl := range collects {
			o, seen := observed[cl.msg]
			if !seen || cl.err {
				continue
			}
			want := 0
			for _, s := range sc.Specs {
				if s.Kind == "aggregate" && s.Static && s.Topic == cl.ev.Topic &&
					c09Match(s.Match, o.lvl, o.prev, fmt.Sprintf("task%d", cl.p), cl.ev.ID, time.Duration(cl.ev.DurS)*time.Second) {
					want++
				}
			}
			if aggSeen[cl.msg] < want {
				return Fail("aggregate/lost", "event %s matches %d aggregate handler(s) registered for the whole run but appears in %d aggregate event(s) after two intervals of quiet", cl.msg, want, aggSeen[cl.msg])
			}
		}
	}
	if !nonTrivial {
		c.Trivial = true
	}
	return Pass()
}

func init() {
	Register(&Prop{
		ID:  "C09",
		Run: runC09,
		Rule: "case = 1-3 concurrent publishers (1-10/18 events over 3 topics - two with handlers, one that only comes into existence with the first event collected on it, in a third of the cases by all publishers at once - x 2-4 IDs x 4 levels) x 0-2 concurrent readers (TopicState, EventStates(min)) x a registrar (0-3 handler specs of kind publish/aggregate with one of 8 match expressions, registered for the whole run or added/replaced (keeping or changing the handler id)/removed midway, plus anonymous handler churn; every handler topic has a possibly slow recorder registered first and a never delayed one registered last) x publishers pausing 0/300/700/1100 virtual ms between events (several aggregate intervals) x final reads of every topic x optional UpdateEvent on a not-yet-existing topic x one seeded schedule/knob set; " +
			"in half of the cases without aggregate handlers the service is closed while handlers still have events queued (they are owed all the same); one case in eight instead is a sequential history in which a topic is deleted or closed and comes into being again under the same name (handlers registered on each incarnation get exactly the events collected while they were registered; level and event states are those of the events since the topic last came into being); " +
			"non-trivial = some topic history has >= 3 operations; distinct = distinct (scenario, interleaving signature) pairs",
		Real:        []string{"services/alert Service (Collect, UpdateEvent, TopicState, EventStates, Register/Update/DeregisterHandlerSpec, Register/DeregisterAnonHandler, match/publish/aggregate handlers)", "alert.Topics, Topic, bufHandler", "tick/stateful (match expressions)", "services/storage (handler spec DAO) over real bbolt"},
		Stub:        []string{"recording alert.Handler registered through the real service", "porcupine v1.3.0 as the linearizability checker (uninstrumented, runs after the world)", "libflux C stub (never called)"},
		Assumptions: []string{"operations are stamped with the simulator's global event sequence at invoke and return", "an event whose Collect returned an error speaking of f handler failures (full queues) may have skipped at most f of the two always-registered handlers of its topic, and reached each at most once; f is read from the error text, one failure per line", "cross-publisher delivery order is not constrained; per-publisher order is", "porcupine results of 'unknown' (timeout) are counted, never reported"},
	})
}

// c09Levels renders a set of event states as id:level pairs in id order.
func c09Levels(es map[string]alert.EventState) string {
	ids := make([]string, 0, len(es))
	for id := range es {
		ids = append(ids, id)
	}
	sort.Strings(ids)
	var sb strings.Builder
	for _, id := range ids {
		fmt.Fprintf(&sb, "%s:%v ", id, es[id].Level)
	}
	return strings.TrimSpace(sb.String())
}
