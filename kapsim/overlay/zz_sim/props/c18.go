package props

import (
	"bytes"
	"fmt"
	"io"
	"strings"
	"time"

	"github.com/influxdata/kapacitor"
	"github.com/influxdata/kapacitor/clock"
	"github.com/influxdata/kapacitor/edge"
	"github.com/influxdata/kapacitor/models"
	"github.com/influxdata/kapacitor/zz_sim/harness"
	"github.com/influxdata/kapacitor/zz_sim/simrt"
)

// C18 — replaying a recording reproduces the recorded data.

type c18Scenario struct {
	Batch    bool     `json:"batch"`
	Msgs     []c19Msg `json:"messages"`
	RecTime  bool     `json:"rec_time"`
	Clock    string   `json:"clock"` // fast | wall | set
	Fragment bool     `json:"fragment_reads"`
	SlowUs   int      `json:"slow_collector_us"`
	Fault    string   `json:"fault"` // "" | error | truncate
	FaultAt  int      `json:"fault_at_byte"`
	Features []string `json:"features"`
	Config   string   `json:"config"`
}

func c18Gen(c *Ctx) *c18Scenario {
	g := c.G
	sc := &c18Scenario{Batch: g.Bool(), RecTime: g.Bool(), Clock: []string{"fast", "wall", "set"}[g.Intn(3)], Fragment: g.Bool()}
	n := g.Range(1, 8)
	if c.Thorough() {
		n = g.Range(1, 20)
	}
	feat := map[string]bool{}
	// two known format limitations are confined to a minority of the cases so that they cannot mask anything else
	allowInt := !sc.Batch || g.Chance(1, 4)
	allowNewline := sc.Batch || g.Chance(1, 6)
	t := int64(1e9) * int64(1+g.Intn(1000))
	unordered := g.Chance(1, 3) // several writers: a point may be older than the one recorded before it
	for i := 0; i < n; i++ {
		t += []int64{0, 1, 1e6, 1e9, 3e9}[g.Intn(5)]
		if unordered && !sc.Batch && i > 0 && g.Chance(1, 3) {
			t -= []int64{2e9, 1, 5e8}[g.Intn(3)]
		}
		m := c19Msg{Batch: sc.Batch, Name: []string{"m", "cpu load", "é", "a,b"}[g.Intn(4)], TimeNs: t, Tags: map[string]string{}}
		nt := g.Intn(4)
		for k := 0; k < nt; k++ {
			v := []string{"a", "héllo wörld", "c,d", "e=f", "g h", "x\\ny", "trail\\n"}[g.Intn(7)]
			m.Tags[[]string{"host", "dc", "a,b", "x=y"}[g.Intn(4)]] = v
		}
		if sc.Batch {
			m.ByName = g.Chance(1, 4)
			m.Newest1st = unordered && g.Bool()
			m.Dims = simrt.Keys(m.Tags)
			np := g.Range(1, 4)
			for p := 0; p < np; p++ {
				f := c18Fields(c, feat, allowInt, allowNewline)
				m.Points = append(m.Points, f)
			}
		} else {
			m.DB, m.RP = []string{"db", "my db"}[g.Intn(2)], []string{"rp", "autogen"}[g.Intn(2)]
			m.Fields = c18Fields(c, feat, allowInt, allowNewline)
		}
		sc.Msgs = append(sc.Msgs, m)
	}
	for k := range feat {
		sc.Features = append(sc.Features, k)
	}
	if !c.FaultFree {
		if g.Chance(1, 3) {
			sc.SlowUs = []int{1, 1000, 2000000}[g.Intn(3)]
		}
		if g.Chance(1, 3) {
			sc.Fault = []string{"error", "truncate"}[g.Intn(2)]
			sc.FaultAt = g.Range(1, 300)
		}
	}
	return sc
}

func c18Fields(c *Ctx, feat map[string]bool, allowInt, allowNewline bool) map[string]interface{} {
	g := c.G
	n := g.Range(1, 3)
	f := map[string]interface{}{}
	for i := 0; i < n; i++ {
		k := []string{"v", "w", "x y", "é"}[g.Intn(4)]
		kind := g.Intn(5)
		if !allowInt && kind < 2 {
			kind = 2
		}
		switch kind {
		case 0:
			f[k] = []int64{0, 1, -1, 42}[g.Intn(4)]
			feat["int"] = true
		case 1:
			f[k] = []int64{1 << 53, (1 << 53) + 1, 9223372036854775807, -9223372036854775808}[g.Intn(4)]
			feat["int"] = true
		case 2:
			f[k] = []float64{0, 1.5, -2.25, 1e300, 3}[g.Intn(5)]
		case 3:
			s := []string{"", "a", "héllo wörld", "quote\"s and ,commas= spaces", "back\\slash", "☃\U0001F600", "C:\\new\\table", "^\\d+\\n$", "tab\there \\t \\\\n"}[g.Intn(9)]
			if allowNewline && g.Chance(1, 3) {
				s = "line\nbreak"
				feat["newline_in_string"] = true
			}
			f[k] = s
		default:
			f[k] = g.Bool()
		}
	}
	return f
}

type c18Stream struct {
	got    []string
	times  []int64
	closed bool
	slow   func()
}

func (s *c18Stream) CollectPoint(p edge.PointMessage) error {
	if s.slow != nil {
		s.slow()
	}
	cp := p.ShallowCopy()
	s.times = append(s.times, p.Time().UnixNano())
	cp.SetTime(time.Unix(0, 0))
	s.got = append(s.got, c19Canon(cp))
	return nil
}
func (s *c18Stream) Close() error { s.closed = true; return nil }

type c18Batch struct {
	got    []string
	times  [][]int64
	closed bool
	slow   func()
}

func (s *c18Batch) CollectBatch(b edge.BufferedBatchMessage) error {
	if s.slow != nil {
		s.slow()
	}
	var ts []int64
	cp := b.ShallowCopy()
	pts := make([]edge.BatchPointMessage, len(b.Points()))
	for i, p := range b.Points() {
		ts = append(ts, p.Time().UnixNano())
		q := p.ShallowCopy()
		q.SetTime(time.Unix(0, 0))
		pts[i] = q
	}
	ts = append(ts, b.Begin().Time().UnixNano())
	cp.SetPoints(pts)
	nb := b.Begin().ShallowCopy()
	nb.SetTime(time.Unix(0, 0))
	cp.SetBegin(nb)
	s.times = append(s.times, ts)
	s.got = append(s.got, c19Canon(cp))
	return nil
}
func (s *c18Batch) Close() error { s.closed = true; return nil }

// c18Reader hands out the recording in seeded fragments and can fail or end early.
type c18Reader struct {
	p      *harness.SimPipe
	closed bool
}

func (r *c18Reader) Read(b []byte) (int, error) { return r.p.Read(b) }
func (r *c18Reader) Close() error               { r.closed = true; return nil }

func stripTime(m c19Msg) string {
	msg := m.build()
	switch x := msg.(type) {
	case edge.PointMessage:
		// a replayed stream point carries no group/dimensions (they are assigned by from())
		p := edge.NewPointMessage(x.Name(), x.Database(), x.RetentionPolicy(), models.Dimensions{}, x.Fields(), x.Tags(), time.Unix(0, 0))
		return c19Canon(p)
	case edge.BufferedBatchMessage:
		pts := make([]edge.BatchPointMessage, len(x.Points()))
		for i, p := range x.Points() {
			q := p.ShallowCopy()
			q.SetTime(time.Unix(0, 0))
			pts[i] = q
		}
		cp := x.ShallowCopy()
		cp.SetPoints(pts)
		nb := x.Begin().ShallowCopy()
		nb.SetTime(time.Unix(0, 0))
		cp.SetBegin(nb)
		return c19Canon(cp)
	}
	return ""
}

func runC18(c *Ctx) Verdict {
	sc := c18Gen(c)
	c.Scenario = sc
	cfg := c.WorldConfig()
	cfg.MaxSteps = 3_000_000
	sc.Config = fmt.Sprintf("%v p=%.2f", cfg.Strategy, cfg.SwitchProb)
	shape := map[string]interface{}{"batch": sc.Batch, "fault": sc.Fault}
	for _, f := range []string{"int", "newline_in_string"} {
		shape[f] = false
	}
	for _, f := range sc.Features {
		shape[f] = true
	}
	// record
	var rec bytes.Buffer
	var want []string
	var wantTimes [][]int64
	for _, m := range sc.Msgs {
		msg := m.build()
		want = append(want, stripTime(m))
		switch x := msg.(type) {
		case edge.PointMessage:
			if err := kapacitor.WritePointForRecording(&rec, x, "n"); err != nil {
				return Fail("record/error", "WritePointForRecording: %v", err)
			}
			wantTimes = append(wantTimes, []int64{x.Time().UnixNano()})
		case edge.BufferedBatchMessage:
			if err := kapacitor.WriteBatchForRecording(&rec, x); err != nil {
				return Fail("record/error", "WriteBatchForRecording: %v", err)
			}
			var ts []int64
			for _, p := range x.Points() {
				ts = append(ts, p.Time().UnixNano())
			}
			ts = append(ts, x.Begin().Time().UnixNano())
			wantTimes = append(wantTimes, ts)
		}
	}
	data := rec.Bytes()
	var replayErr error
	returned := false
	sc1 := &c18Stream{}
	bc1 := &c18Batch{}
	var leaked []simrt.ParkedInfo
	var rd *c18Reader
	res := c.World(cfg, func() {
		slow := func() {
			if sc.SlowUs > 0 {
				time.Sleep(time.Duration(sc.SlowUs) * time.Microsecond)
				simrt.Count("fault.collector.slow")
			}
		}
		sc1.slow, bc1.slow = slow, slow
		pipe := &harness.SimPipe{Name: "recording", Fragment: sc.Fragment}
		pipe.Write(data)
		pipe.Close()
		switch sc.Fault {
		case "error":
			pipe.BreakAt = sc.FaultAt
		case "truncate":
			pipe.BreakAt, pipe.BreakErr = sc.FaultAt, io.EOF
		}
		rd = &c18Reader{p: pipe}
		var clk clock.Clock
		switch sc.Clock {
		case "fast":
			clk = clock.Fast()
		case "wall":
			clk = clock.Wall()
		default:
			st := clock.New(time.Unix(0, 0).UTC())
			clk = st
			// a driver advances the set clock, as the replay service does for real-time replays
			go func() {
				setter := st.(clock.Setter)
				for i := 1; i <= 40000 && !returned; i++ {
					setter.Set(time.Unix(int64(i), 0).UTC())
					simrt.Yield()
				}
			}()
		}
		g0 := simrt.GoroutineCount()
		var errC <-chan error
		if sc.Batch {
			errC = kapacitor.ReplayBatchFromIO(clk, []io.ReadCloser{rd}, []kapacitor.BatchCollector{bc1}, sc.RecTime)
		} else {
			errC = kapacitor.ReplayStreamFromIO(clk, rd, sc1, sc.RecTime, "n")
		}
		done := simrt.Expect("replay result", 3_000_000, 48*time.Hour)
		replayErr = <-errC
		done()
		returned = true
		simrt.Fair()
		simrt.WaitIdle()
		leaked = simrt.LiveSince(g0)
	})
	if v, bad := WorldVerdict(res, false); bad {
		v.Shape = shape
		return v
	}
	got, times, closed := sc1.got, [][]int64(nil), sc1.closed
	for _, t := range sc1.times {
		times = append(times, []int64{t})
	}
	if sc.Batch {
		got, times, closed = bc1.got, bc1.times, bc1.closed
	}
	if sc.Fault == "" {
		if replayErr != nil {
			v := Fail("replay/error", "replaying an unmodified recording failed: %v\nrecording:\n%s", replayErr, truncateStr(string(data), 600))
			v.Shape = shape
			return v
		}
		if len(leaked) > 0 {
			v := Fail("goroutine-leak", "the replay reported its result but %d of its goroutines are still alive: %v", len(leaked), leaked)
			v.Shape = shape
			return v
		}
		if !closed {
			return Fail("replay/not-closed", "the replay ended without closing the collector")
		}
		if len(got) != len(want) {
			v := Fail("replay/count", "%d items recorded, %d replayed\nrecording:\n%s", len(want), len(got), truncateStr(string(data), 600))
			v.Shape = shape
			return v
		}
		for i := range want {
			if got[i] != want[i] {
				v := Fail("replay/changed", "item #%d differs after record+replay\nrecorded: %s\nreplayed: %s", i, want[i], got[i])
				v.Shape = shape
				return v
			}
		}
		// times: identical (recorded-time replay) or all shifted by one constant offset
		var off int64
		first := true
		for i := range wantTimes {
			n := len(wantTimes[i])
			if sc.Batch {
				n-- // tmax is adjusted to the last point's time by the replay; compared separately
			}
			if sc.Batch && sc.RecTime && n >= 1 {
				// recorded-time replay: the batch time is the recorded one (moved up to the last point's time if it lay before it)
				wt := wantTimes[i][n]
				if lp := wantTimes[i][n-1]; lp > wt {
					wt = lp
				}
				if times[i][n] != wt {
					v := Fail("replay/time", "recorded-time replay changed the time of batch #%d by %v (points keep their recorded times)", i, time.Duration(times[i][n]-wt))
					v.Shape = shape
					return v
				}
			}
			for j := 0; j < n; j++ {
				d := times[i][j] - wantTimes[i][j]
				if sc.RecTime && d != 0 {
					return Fail("replay/time", "recorded-time replay changed a timestamp by %v (item #%d)", time.Duration(d), i)
				}
				if first {
					off, first = d, false
				} else if d != off {
					v := Fail("replay/time", "timestamps are not shifted by one constant offset: item #%d moved by %v, earlier items by %v", i, time.Duration(d), time.Duration(off))
					v.Shape = shape
					return v
				}
			}
		}
		return Pass()
	}
	// read fault: a prefix is delivered unchanged, an error is reported (or, for a truncation at a record boundary, none), nothing hangs
	if len(got) > len(want) {
		return Fail("fault/invented", "%d items recorded, %d replayed after a read %s", len(want), len(got), sc.Fault)
	}
	for i := range got {
		if got[i] != want[i] {
			// the item cut by the fault may legitimately fail to parse; it must not be delivered changed
			v := Fail("fault/changed", "after a read %s at byte %d item #%d was delivered changed\nrecorded: %s\nreplayed: %s", sc.Fault, sc.FaultAt, i, want[i], got[i])
			v.Shape = shape
			return v
		}
	}
	if sc.Fault == "error" && sc.FaultAt < len(data) && replayErr == nil {
		v := Fail("fault/error-swallowed", "the recording could not be read past byte %d of %d but the replay reported success after %d of %d items", sc.FaultAt, len(data), len(got), len(want))
		v.Shape = shape
		return v
	}
	return Pass()
}

func truncateStr(s string, n int) string {
	if len(s) > n {
		return s[:n] + "..."
	}
	return s
}

var _ = strings.Join

func init() {
	Register(&Prop{
		ID:  "C18",
		Run: runC18,
		Rule: "case = 1-8/20 points or batches (all field types incl. int64 beyond 2^53, strings with quotes/commas/backslashes/unicode/newlines, tag keys and values with commas/equals/spaces, empty tag sets, db/rp with spaces) written with WritePointForRecording/WriteBatchForRecording and replayed with ReplayStreamFromIO/ReplayBatchFromIO under recTime on/off and the fast, wall (virtual) and externally driven set clock, with the recording read in seeded fragments; faulty configuration: slow collector, read error or truncation at a seeded byte offset; " +
			"(round 3) in a third of the cases stream points may be older than the point recorded before them and batches may hold their points newest first; " +
			"non-trivial = every case; distinct = distinct (scenario, interleaving signature) pairs",
		Real:        []string{"replay.go (Write*ForRecording, Replay*FromIO, readPointsFromIO/readBatchFromIO, replay*FromChan)", "edge message codecs (point line protocol, bufferedBatchMessage JSON)", "kapacitor/clock (fast, wall, set clock on the virtual time)"},
		Stub:        []string{"SimPipe as the recording's io.ReadCloser", "recording collectors", "services/replay (files on disk, HTTP API) is not run"},
		Assumptions: []string{"empty batches are not generated (readBatchFromIO documents that it skips them)", "batch tmax is compared in recorded-time replays only (otherwise the replay leaves it unshifted unless it lies before the last point, by design)", "a stream point replays without group/dimensions (assigned later by from())"},
	})
}
