package props

import (
	"fmt"
	"sort"
	"strings"
	"sync"
	"time"

	"github.com/influxdata/kapacitor"
	"github.com/influxdata/kapacitor/zz_sim/harness"
	"github.com/influxdata/kapacitor/zz_sim/simrt"
)

// C12 — join and union results do not depend on how parent streams interleave.

type c12Point struct {
	T int    `json:"t"` // seconds (join) — per parent non-decreasing
	G string `json:"g"`
	S int    `json:"s"`
}

type c12Scenario struct {
	Kind      string       `json:"kind"` // join | union | batchjoin
	Parents   [][]c12Point `json:"parents"`
	TolS      int          `json:"tolerance_s"`
	Fill      string       `json:"fill"` // "" inner | "null" | "0"
	Script    string       `json:"script"`
	Schedules int          `json:"schedules"`
	StopEarly bool         `json:"stop_without_waiting_for_idle"`
	WinS      int          `json:"batch_window_s,omitempty"`
	EmptyFor  int          `json:"parent_whose_first_points_are_filtered_out"` // -1: none
	EmptyMinS int          `json:"filter_keeps_points_from_seq,omitempty"`
	OwnFields bool         `json:"parents_have_fields_of_their_own,omitempty"` // parent p also carries a field x<p>: the names of filled fields then depend on which parent they are taken from
	Configs   []string     `json:"configs"`
}

func c12Gen(c *Ctx) *c12Scenario {
	g := c.G
	sc := &c12Scenario{}
	sc.Kind = []string{"join", "union", "join", "batchjoin", "joinon", "batchjoin", "batchunion"}[g.Intn(7)]
	np := g.Range(2, 3)
	maxPts := 10
	if c.Thorough() {
		maxPts = 25
	}
	names := []string{"pa", "pb", "pc"}
	for p := 0; p < np; p++ {
		n := g.Range(0, maxPts)
		t := g.Intn(3)
		var pts []c12Point
		for i := 0; i < n; i++ {
			switch g.Intn(5) {
			case 0: // duplicate timestamp
			case 1, 2:
				t++
			case 3:
				t += 2
			default:
				t += g.Range(3, 9) // gap: this parent is silent for a while
			}
			pts = append(pts, c12Point{T: t, G: []string{"g0", "g1"}[g.Intn(2)], S: i})
		}
		sc.Parents = append(sc.Parents, pts)
	}
	sc.TolS = []int{0, 0, 1, 5}[g.Intn(4)]
	sc.Fill = []string{"", "", "null", "0"}[g.Intn(4)]
	if sc.Kind == "batchjoin" && g.Chance(2, 3) {
		sc.TolS = 0 // (the pairing reference for batch joins covers exactly aligned batches)
		if g.Bool() {
			sc.Fill = ""
		}
	}
	sc.Schedules = 3
	if c.Thorough() {
		sc.Schedules = 6
	}
	sc.StopEarly = g.Chance(1, 4)
	sc.OwnFields = sc.Kind != "union" && sc.Kind != "batchunion" && sc.Fill != "" && g.Bool()
	var sb strings.Builder
	win := ""
	emptyFor, emptyWin := -1, ""
	sc.EmptyFor = -1
	if sc.Kind == "batchjoin" || sc.Kind == "batchunion" {
		sc.WinS = []int{3, 3, 6, 8}[g.Intn(4)]
		win = fmt.Sprintf("\n    |window().period(%ds).every(%ds).align()", sc.WinS, sc.WinS) // several batches per parent, so that one parent can be batches ahead
		if g.Bool() {
			// a node that forwards the batch piecewise (begin, points, end): the join's reader of this parent reassembles it
			win += "\n    |where(lambda: \"v\" >= 0)"
		} else if sc.Kind == "batchjoin" && g.Bool() {
			// ... and filters: the first batches of one parent reach the join empty
			sc.EmptyFor, sc.EmptyMinS = g.Intn(np), g.Range(2, 6)
			emptyFor, emptyWin = sc.EmptyFor, win+fmt.Sprintf("\n    |where(lambda: \"s\" >= %d)", sc.EmptyMinS)
		}
	}
	for p := 0; p < np; p++ {
		gb := "'g'"
		if sc.Kind == "joinon" && p == 0 {
			gb = "'g', 'h'" // the first parent is grouped more finely; the join is on the common dimension
		}
		w := win
		if p == emptyFor {
			w = emptyWin
		}
		fmt.Fprintf(&sb, "var %s = stream\n    |from().measurement('%s').groupBy(%s)%s\n", names[p], names[p], gb, w)
	}
	var others []string
	for p := 1; p < np; p++ {
		others = append(others, names[p])
	}
	switch sc.Kind {
	case "union", "batchunion":
		fmt.Fprintf(&sb, "%s\n    |union(%s)\n    |log().prefix('OUT')\n", names[0], strings.Join(others, ", "))
	default:
		var as []string
		for p := 0; p < np; p++ {
			as = append(as, "'"+names[p]+"'")
		}
		fmt.Fprintf(&sb, "%s\n    |join(%s)\n        .as(%s)", names[0], strings.Join(others, ", "), strings.Join(as, ", "))
		if sc.Kind == "joinon" {
			sb.WriteString("\n        .on('g')")
		}
		if sc.TolS > 0 {
			fmt.Fprintf(&sb, "\n        .tolerance(%ds)", sc.TolS)
		}
		switch sc.Fill {
		case "null":
			sb.WriteString("\n        .fill('null')")
		case "0":
			sb.WriteString("\n        .fill(0)")
		}
		sb.WriteString("\n    |log().prefix('OUT')\n")
	}
	sc.Script = sb.String()
	return sc
}

// c12Run executes the workload once under one schedule and returns the canonical output lines.
func c12Run(c *Ctx, sc *c12Scenario, k int) ([]string, []string, Verdict) {
	cfg := c.WorldConfig()
	if cfg.Strategy == simrt.StratStarve {
		// hold one parent (or the join itself) back: the other parents run far ahead
		cfg.StarveRole = []string{"c12.go", "edge/consumer.go", "node.go"}[c.G.Intn(3)]
	}
	cfg.MaxSteps = 3_000_000
	sc.Configs = append(sc.Configs, fmt.Sprintf("%v p=%.2f knobs=%v", cfg.Strategy, cfg.SwitchProb, cfg.Knobs))
	names := []string{"pa", "pb", "pc"}
	var verdict Verdict
	var d *harness.Daemon
	var leaked []simrt.ParkedInfo
	res := c.World(cfg, func() {
		var err error
		d, err = harness.NewDaemon(harness.DaemonOpts{})
		if err != nil {
			verdict = Fail("harness/setup", "daemon: %v", err)
			return
		}
		task, err := d.Define("J", sc.Script, kapacitor.StreamTask, []kapacitor.DBRP{{Database: "db", RetentionPolicy: "rp"}})
		if err != nil {
			verdict = Fail("harness/setup", "define: %v\n%s", err, sc.Script)
			return
		}
		g0 := simrt.GoroutineCount()
		if _, err := d.TM.StartTask(task); err != nil {
			verdict = Fail("harness/setup", "start: %v", err)
			return
		}
		g1 := simrt.GoroutineCount()
		var wg sync.WaitGroup
		for p, pts := range sc.Parents {
			wg.Add(1)
			go func(p int, pts []c12Point) {
				defer wg.Done()
				for _, pt := range pts {
					own := ""
					if sc.OwnFields {
						own = fmt.Sprintf(",x%d=%di", p, pt.S)
					}
					line := fmt.Sprintf("%s,g=%s,h=h%d s=%di,v=%di%s %d\n", names[p], pt.G, pt.S%2, pt.S, pt.S*10+p, own, int64(pt.T)*int64(time.Second))
					if code := d.WriteLine("db", "rp", line); code != 204 {
						verdict = Fail("harness/setup", "write rejected: %d", code)
					}
				}
			}(p, pts)
		}
		done := simrt.Expect("writers finish", 3_000_000, time.Hour)
		wg.Wait()
		done()
		if !sc.StopEarly {
			simrt.WaitIdle()
		}
		// daemon shutdown drains the ingest queue, then stops the task: parents close, Finish must flush
		done = simrt.Expect("TaskMaster.Close", 3_000_000, time.Hour)
		d.TM.Close()
		done()
		simrt.Fair()
		simrt.WaitIdle()
		leaked = simrt.LiveDescendants(g0, g1)
	})
	if v, bad := WorldVerdict(res, false); bad {
		return nil, nil, v
	}
	if verdict.Class != "" {
		return nil, nil, verdict
	}
	if len(leaked) > 0 {
		return nil, nil, Fail("goroutine-leak", "after the task was stopped %d goroutine(s) it started are still alive: %v", len(leaked), leaked)
	}
	var lines, ordered []string
	for _, o := range d.Sinks.Get("OUT") {
		if o.Copy != nil {
			l := c12Canon(o.Copy.Name+" "+o.Copy.Group, o.Copy.TimeNs, o.Copy.Fields)
			lines = append(lines, l)
			ordered = append(ordered, l)
		} else if o.BCopy != nil {
			var ps []string
			for _, p := range o.BCopy.Points {
				ps = append(ps, c12Canon("", p.TimeNs, p.Fields))
				if sc.Kind == "batchjoin" && !sc.OwnFields {
					// whatever the pairing, a joined point carries the fields of every parent under its as() name: the
					// parent's own values, or the configured fill where the parent had no point
					for pi := range sc.Parents {
						for _, f := range []string{".s", ".v"} {
							if _, ok := p.Fields[[]string{"pa", "pb", "pc"}[pi]+f]; !ok {
								v := Fail("join/fields", "a point of a joined batch (group %s, batch time %ds, point time %ds) lacks the field %s%s: it has %v (fill=%q)", o.BCopy.Group, o.BCopy.TMaxNs/1e9, p.TimeNs/1e9, []string{"pa", "pb", "pc"}[pi], f, simrt.Keys(p.Fields), sc.Fill)
								v.Shape = map[string]interface{}{"kind": sc.Kind, "fill": sc.Fill}
								return nil, nil, v
							}
						}
					}
				}
			}
			l := fmt.Sprintf("batch %s %s tmax=%d [%s]", o.BCopy.Name, o.BCopy.Group, o.BCopy.TMaxNs/1e9, strings.Join(ps, "; "))
			lines = append(lines, l)
			ordered = append(ordered, l)
		}
	}
	sort.Strings(lines)
	if len(d.Sinks.Errs) > 0 {
		return nil, nil, Fail("node-error", "nodes reported errors: %v", firstN(d.Sinks.Errs, 3))
	}
	return lines, ordered, Verdict{}
}

func c12Canon(group string, tns int64, fields map[string]interface{}) string {
	ks := simrt.Keys(fields)
	var fs []string
	for _, k := range ks {
		fs = append(fs, fmt.Sprintf("%s=%v", k, fields[k]))
	}
	return fmt.Sprintf("%s t=%d %s", group, tns/1e9, strings.Join(fs, ","))
}

func roundS(t, tol int) int {
	if tol <= 0 {
		return t
	}
	// time.Round: halfway values round up
	r := t % tol
	if r*2 < tol {
		return t - r
	}
	return t + tol - r
}

// c12JoinModel is the reference pairing model for stream joins.
func c12JoinModel(sc *c12Scenario) []string {
	names := []string{"pa", "pb", "pc"}
	np := len(sc.Parents)
	type key struct {
		g string
		t int
	}
	occ := map[key][][]c12Point{}
	for p, pts := range sc.Parents {
		for _, pt := range pts {
			k := key{pt.G, roundS(pt.T, sc.TolS)}
			if occ[k] == nil {
				occ[k] = make([][]c12Point, np)
			}
			occ[k][p] = append(occ[k][p], pt)
		}
	}
	var out []string
	for k, per := range occ {
		min, max := 1<<30, 0
		for p := 0; p < np; p++ {
			if len(per[p]) < min {
				min = len(per[p])
			}
			if len(per[p]) > max {
				max = len(per[p])
			}
		}
		n := min
		if sc.Fill != "" {
			n = max
		}
		for i := 0; i < n; i++ {
			fields := map[string]interface{}{}
			for p := 0; p < np; p++ {
				if i < len(per[p]) {
					fields[names[p]+".s"] = int64(per[p][i].S)
					fields[names[p]+".v"] = int64(per[p][i].S*10 + p)
				} else if sc.Fill == "null" {
					fields[names[p]+".s"] = nil
					fields[names[p]+".v"] = nil
				} else {
					fields[names[p]+".s"] = int64(0)
					fields[names[p]+".v"] = int64(0)
				}
			}
			first := ""
			for p := 0; p < np && first == ""; p++ {
				if i < len(per[p]) {
					first = names[p] // a joined point is named after the first of its parents that contributed
				}
			}
			out = append(out, c12Canon(first+" g="+k.g, int64(k.t)*1e9, fields))
		}
	}
	sort.Strings(out)
	return out
}

// c12BatchJoinModel: inner join of batches.  Each parent's points of one group are cut into the batches its window
// node emits (C03's reference: tumbling, aligned, one emission per arrival at or after the next edge); the batches
// of one group that end at the same time in every parent are joined point by point: per timestamp, the k-th
// occurrence in each parent, as long as every parent has one.
func c12BatchJoinModel(sc *c12Scenario) []string {
	names := []string{"pa", "pb", "pc"}
	np := len(sc.Parents)
	wm := &c03Scenario{PeriodS: sc.WinS, EveryS: sc.WinS, Align: true}
	type key struct {
		g string
		T int
	}
	batches := map[key][][]c12Point{} // per parent: the points of the batch (nil slot = the parent emitted no such batch)
	have := map[key][]bool{}
	for p, pts := range sc.Parents {
		byG := map[string][]c12Point{}
		for _, pt := range pts {
			byG[pt.G] = append(byG[pt.G], pt)
		}
		for _, g := range simrt.Keys(byG) {
			var ts []int
			for _, pt := range byG[g] {
				ts = append(ts, pt.T)
			}
			for _, w := range wm.model(ts) {
				k := key{g, w.T}
				if batches[k] == nil {
					batches[k], have[k] = make([][]c12Point, np), make([]bool, np)
				}
				have[k][p] = true
				for _, id := range w.Ids {
					if pt := byG[g][id]; p != sc.EmptyFor || pt.S >= sc.EmptyMinS {
						batches[k][p] = append(batches[k][p], pt)
					}
				}
			}
		}
	}
	var out []string
	for k, per := range batches {
		all := true
		for p := 0; p < np; p++ {
			all = all && have[k][p]
		}
		if !all {
			continue
		}
		byT := map[int][][]c12Point{}
		for p := 0; p < np; p++ {
			for _, pt := range per[p] {
				if byT[pt.T] == nil {
					byT[pt.T] = make([][]c12Point, np)
				}
				byT[pt.T][p] = append(byT[pt.T][p], pt)
			}
		}
		for t, occ := range byT {
			n := 1 << 30
			for p := 0; p < np; p++ {
				if len(occ[p]) < n {
					n = len(occ[p])
				}
			}
			for i := 0; i < n; i++ {
				fields := map[string]interface{}{}
				for p := 0; p < np; p++ {
					fields[names[p]+".s"] = int64(occ[p][i].S)
					fields[names[p]+".v"] = int64(occ[p][i].S*10 + p)
				}
				out = append(out, fmt.Sprintf("g=%s T=%d%s", k.g, k.T, c12Canon("", int64(t)*1e9, fields)))
			}
		}
	}
	sort.Strings(out)
	return out
}

func runC12(c *Ctx) Verdict {
	sc := c12Gen(c)
	c.Scenario = sc
	var first []string
	total := 0
	for _, p := range sc.Parents {
		total += len(p)
	}
	if total == 0 {
		c.Trivial = true
	}
	for k := 0; k < sc.Schedules; k++ {
		lines, ordered, v := c12Run(c, sc, k)
		if v.Class != "" {
			v.Shape = map[string]interface{}{"kind": sc.Kind}
			return v
		}
		c.Counters["obs.outputs_"+sc.Kind] += int64(len(lines))
		if k == 0 {
			first = lines
		} else if strings.Join(first, "\n") != strings.Join(lines, "\n") {
			v := Fail("schedule-dependent", "the same per-parent sequences produced different output multisets under two schedules (%s).\nschedule 0 (%s): %d outputs\n%s\nschedule %d (%s): %d outputs\n%s",
				sc.Kind, sc.Configs[0], len(first), diffLines(first, lines), k, sc.Configs[k], len(lines), diffLines(lines, first))
			v.Shape = map[string]interface{}{"kind": sc.Kind, "fill": sc.Fill, "coarse_parent_has_duplicates": c12CoarseDup(sc), "fine_parent_has_duplicates": c12FineDup(sc), "parents": len(sc.Parents)}
			return v
		}
		switch sc.Kind {
		case "join":
			if sc.OwnFields {
				break // which names the filled fields of an absent parent get is not documented: schedule independence only
			}
			want := c12JoinModel(sc)
			if strings.Join(want, "\n") != strings.Join(lines, "\n") {
				v := Fail("join/pairing", "join output differs from the reference pairing model (per group and tolerance-rounded time, k-th occurrence of each parent; fill=%q, tolerance=%ds) under schedule %d.\nmissing from output:\n%s\nunexpected in output:\n%s",
					sc.Fill, sc.TolS, k, diffLines(want, lines), diffLines(lines, want))
				v.Shape = map[string]interface{}{"kind": sc.Kind, "fill": sc.Fill}
				return v
			}
		case "batchjoin":
			if sc.Fill != "" || sc.TolS != 0 {
				break // the reference below is for inner joins of exactly aligned batches
			}
			want := c12BatchJoinModel(sc)
			var got []string
			for _, l := range lines {
				// "batch <name> <group> tmax=<T> [<point>; <point>]"
				var name, grp string
				var tmax int
				i := strings.Index(l, "[")
				if _, err := fmt.Sscanf(l[:i], "batch %s %s tmax=%d", &name, &grp, &tmax); err != nil || i < 0 {
					return Fail("harness/parse", "cannot parse %q: %v", l, err)
				}
				body := strings.TrimSuffix(l[i+1:], "]")
				if body == "" {
					continue // an empty joined batch says nothing
				}
				for _, pt := range strings.Split(body, "; ") {
					got = append(got, fmt.Sprintf("%s T=%d%s", grp, tmax, pt))
				}
			}
			sort.Strings(got)
			if strings.Join(want, "\n") != strings.Join(got, "\n") {
				v := Fail("join/pairing", "the points of the joined batches differ from the reference (inner join of the parents' batches of one group and window: per timestamp the k-th occurrences present in all parents) under schedule %d.\nmissing from output:\n%s\nunexpected in output:\n%s",
					k, diffLines(want, got), diffLines(got, want))
				v.Shape = map[string]interface{}{"kind": sc.Kind, "fill": sc.Fill}
				return v
			}
		case "union":
			// every parent message exactly once, each parent's order kept, output times non-decreasing
			names := []string{"pa", "pb", "pc"}
			var want []string
			for p, pts := range sc.Parents {
				for _, pt := range pts {
					want = append(want, c12Canon(names[p]+" g="+pt.G, int64(pt.T)*1e9, map[string]interface{}{"s": int64(pt.S), "v": int64(pt.S*10 + p)}))
				}
				_ = names
			}
			sort.Strings(want)
			if strings.Join(want, "\n") != strings.Join(lines, "\n") {
				v := Fail("union/conservation", "union did not emit every parent message exactly once under schedule %d.\nmissing:\n%s\nunexpected:\n%s", k, diffLines(want, lines), diffLines(lines, want))
				v.Shape = map[string]interface{}{"kind": sc.Kind}
				return v
			}
			lastT := int64(-1)
			lastS := map[int64]int64{}
			for _, l := range ordered {
				var g string
				var t int64
				var s, vv int64
				var nm string
				if _, err := fmt.Sscanf(l, "%s g=%s t=%d s=%d,v=%d", &nm, &g, &t, &s, &vv); err != nil {
					return Fail("harness/parse", "cannot parse %q: %v", l, err)
				}
				if t < lastT {
					v := Fail("union/time-order", "union emitted t=%ds after t=%ds under schedule %d: %v", t, lastT, k, ordered)
					v.Shape = map[string]interface{}{"kind": sc.Kind}
					return v
				}
				lastT = t
				p := vv % 10
				if prev, ok := lastS[p]; ok && prev > s {
					v := Fail("union/parent-order", "union emitted parent %d's message #%d after #%d", p, s, prev)
					v.Shape = map[string]interface{}{"kind": sc.Kind}
					return v
				}
				lastS[p] = s
			}
		}
	}
	return Pass()
}

// c12CoarseDup: for join().on(), does a coarsely grouped parent deliver two points for the same group and (rounded) time?
func c12CoarseDup(sc *c12Scenario) bool {
	if sc.Kind != "joinon" {
		return false
	}
	for p := 1; p < len(sc.Parents); p++ {
		seen := map[string]bool{}
		for _, pt := range sc.Parents[p] {
			k := fmt.Sprint(pt.G, "@", roundS(pt.T, sc.TolS))
			if seen[k] {
				return true
			}
			seen[k] = true
		}
	}
	return false
}

func c12FineDup(sc *c12Scenario) bool {
	if sc.Kind != "joinon" || len(sc.Parents) == 0 {
		return false
	}
	seen := map[string]bool{}
	for _, pt := range sc.Parents[0] {
		k := fmt.Sprint(pt.G, pt.S%2, "@", roundS(pt.T, sc.TolS))
		if seen[k] {
			return true
		}
		seen[k] = true
	}
	return false
}

func diffLines(a, b []string) string {
	cnt := map[string]int{}
	for _, l := range b {
		cnt[l]++
	}
	var out []string
	for _, l := range a {
		if cnt[l] > 0 {
			cnt[l]--
			continue
		}
		out = append(out, "    "+l)
	}
	if len(out) > 12 {
		out = append(out[:12], "    ...")
	}
	if len(out) == 0 {
		return "    (none)"
	}
	return strings.Join(out, "\n")
}

func init() {
	Register(&Prop{
		ID:  "C12",
		Run: runC12,
		Rule: "case = 2-3 parent branches (separate from() per measurement, grouped by tag g, optionally windowed (3s, 6s or 8s tumbling) for a batch join, or the first parent grouped more finely and joined .on('g')) into join(as, tolerance 0/1s/5s, inner or fill null/0, parents optionally with a field of their own) or union (of points or of batches); outputs are compared with their measurement name; one writer per parent with a seeded non-decreasing time sequence (duplicates, gaps, silent or empty parents); " +
			"inner batch joins without tolerance are also compared with a pairing reference (the batches C03's window reference gives each parent, joined per group, window end and timestamp by k-th occurrence); (round 3) in batch joins one parent may be filtered so that its first batches reach the join empty, and every point of a joined batch must carry the fields of every parent under its as() name; " +
			"the same workload is executed under 3 (quick) / 6 (thorough) independently seeded schedules, some of which starve a parent or the join; the task is then drained by TaskMaster.Close; " +
			"non-trivial = at least one point was written; distinct = distinct (scenario, interleaving signatures of all schedules) tuples",
		Real:        []string{"JoinNode (joinGroup, joinset), UnionNode, CircularQueue", "edge.multiConsumer (one reader goroutine per parent)", "WindowNode (batch join)", "TaskMaster ingest/fork/Close, FromNode, LogNode", "services/httpd write endpoint"},
		Stub:        []string{"libflux C stub (never called)", "no sockets"},
		Assumptions: []string{"each parent's points are written in non-decreasing time order by one writer (the property's precondition)", "outer batch joins, batch joins with a tolerance, batch unions and join().on() (first parent grouped by g,h, the others by g) are checked for schedule independence only (no pairing model)"},
	})
}
