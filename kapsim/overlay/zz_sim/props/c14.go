package props

import (
	"encoding/json"
	"fmt"
	"os"
	"sort"
	"strings"
	"time"

	"github.com/influxdata/kapacitor/tick"
	"github.com/influxdata/kapacitor/zz_sim/harness"
	"github.com/influxdata/kapacitor/zz_sim/simrt"
)

// C14 — task definitions and their running state persist and stay in step.

type c14Op struct {
	Kind     string `json:"op"` // createTask patchTask deleteTask createTemplate patchTemplate restart write
	ID       string `json:"id,omitempty"`
	Script   int    `json:"script,omitempty"` // index into c14Scripts / c14TScripts (0 = not given)
	Status   string `json:"status,omitempty"` // "", enabled, disabled
	NewID    string `json:"new_id,omitempty"`
	Template string `json:"template,omitempty"`
	Vars     string `json:"vars,omitempty"`    // "", int, float, bad
	DBRP     string `json:"dbrp,omitempty"`    // explicit dbrp in the request: "", db, db2
	NoWait   bool   `json:"no_wait,omitempty"` // the next request is issued without waiting for the daemon to settle
}

type c14Scenario struct {
	Ops        []c14Op  `json:"ops"`
	CrashAt    []int    `json:"crash_boundaries"`
	FailWrites [][2]int `json:"failing_writes"` // (op index, k-th storage write within that request)
	Boundaries int      `json:"boundaries_in_base_run"`
	Writes     int      `json:"writes_in_base_run"`
	Config     string   `json:"config"`
	Phase      string   `json:"fault_phase"`
}

// c14Script describes one script of the fixed vocabulary: what it declares is written down here, by hand,
// and is what the reference catalogue reasons with.
type c14Script struct {
	Text     string
	Invalid  bool   // rejected at definition
	Implicit string // database of a dbrp statement in the script
	Th       string // declaration of var th: "", int-default, float-default, float-required
	ThDef    string // the default's rendering
	Fails    bool   // valid definition that cannot be started: it writes to an InfluxDB cluster that does not exist, or (a batch task) queries a database that is not among its dbrps
	Dies     bool   // valid, startable definition whose pipeline fails at run time on the data the "boom" operation writes (combine over more points of one timestamp than max allows)
}

var c14Scripts = []c14Script{{},
	{Text: "stream\n    |from()\n        .measurement('m')\n    |log()\n"},
	{Text: "var th = 1\n\nstream\n    |from()\n        .measurement('m2')\n    |where(lambda: \"v\" > th)\n    |log()\n", Th: "int-default", ThDef: "1"},
	{Text: "stream\n    |from()\n    |nope()\n", Invalid: true},
	{Text: "dbrp \"idb\".\"rp\"\n\nstream\n    |from()\n        .measurement('m4')\n    |log()\n", Implicit: "idb"},
	{Text: "stream\n    |from()\n        .measurement('m5')\n    |influxDBOut()\n        .cluster('unreachable')\n        .database('out')\n        .retentionPolicy('rp')\n", Fails: true},
	{Text: "stream\n    |from()\n        .measurement('boom')\n    |combine(lambda: TRUE, lambda: TRUE)\n        .as('a', 'b')\n        .max(1)\n    |log()\n", Dies: true},
	{Text: "batch\n    |query('SELECT v FROM \"otherdb\".\"rp\".m')\n        .period(10s)\n        .every(10s)\n    |log()\n", Fails: true},
}
var c14TScripts = []c14Script{{},
	{Text: "var th = 1\n\nstream\n    |from()\n        .measurement('tm')\n    |where(lambda: \"v\" > th)\n    |log()\n", Th: "int-default", ThDef: "1"},
	{Text: "var th = 2\n\nstream\n    |from()\n        .measurement('tm2')\n    |where(lambda: \"v\" >= th)\n    |log()\n", Th: "int-default", ThDef: "2"},
	{Text: "var th = 1\n\nstream\n    |nope()\n", Invalid: true},
	{Text: "var th float\n\nstream\n    |from()\n        .measurement('tm4')\n    |where(lambda: \"v\" > th)\n    |log()\n", Th: "float-required"},
	{Text: "var th = 1.5\n\nstream\n    |from()\n        .measurement('tm5')\n    |where(lambda: \"v\" > th)\n    |log()\n", Th: "float-default", ThDef: "1.5"},
	{Text: "dbrp \"tdb\".\"rp\"\n\nvar th = 1\n\nstream\n    |from()\n        .measurement('tm6')\n    |where(lambda: \"v\" > th)\n    |log()\n", Th: "int-default", ThDef: "1", Implicit: "tdb"},
}

var c14ByText = map[string]c14Script{}

func init() {
	for _, s := range c14Scripts[1:] {
		c14ByText[s.Text] = s
	}
	for _, s := range c14TScripts[1:] {
		c14ByText[s.Text] = s
	}
}

var c14TaskIDs = []string{"t1", "t1x", "t3", "t4"}

// one template id is a prefix of the other, as are task ids t1 / t1x in storage keys
var c14TmplIDs = []string{"T1", "T1x"}

func c14Gen(c *Ctx) *c14Scenario {
	g := c.G
	sc := &c14Scenario{}
	n := g.Range(3, 12)
	if c.Thorough() {
		n = g.Range(3, 25)
	}
	vars := func() string {
		switch g.Intn(8) {
		case 0, 1:
			return "int"
		case 2, 3:
			return "float"
		case 4:
			return "bad"
		}
		return ""
	}
	// template-heavy histories are a swarm choice: they need a template, several tasks from it, then template updates
	tmplHeavy := g.Chance(1, 2)
	// bursts: requests issued back to back, while start-failure bookkeeping of earlier ones is still in flight
	burst := g.Chance(1, 6)
	// one case in six opens with two templates whose ids are prefixes of one another, both with tasks
	if g.Chance(1, 6) {
		tmplHeavy = true
		sc.Ops = append(sc.Ops,
			c14Op{Kind: "createTemplate", ID: "T1x", Script: 1 + g.Intn(2)},
			c14Op{Kind: "createTemplate", ID: "T1", Script: 1 + g.Intn(2)},
			c14Op{Kind: "createTask", ID: "t1x", Template: "T1x", DBRP: "db", Status: []string{"enabled", "disabled"}[g.Intn(2)]},
			c14Op{Kind: "createTask", ID: "t1", Template: []string{"T1", "T1x"}[g.Intn(2)], DBRP: "db"},
		)
	}
	// one case in eight opens with a running task, so that what follows (rename, disable, both at once, delete,
	// script change, restart) meets an executing pipeline
	if len(sc.Ops) == 0 && g.Chance(1, 8) {
		sc.Ops = append(sc.Ops, c14Op{Kind: "createTask", ID: g.Pick(c14TaskIDs), Script: []int{1, 2, 6, 6}[g.Intn(4)], Status: "enabled", DBRP: "db"})
		id := sc.Ops[0].ID
		switch g.Intn(5) {
		case 0:
			sc.Ops = append(sc.Ops, c14Op{Kind: "patchTask", ID: id, NewID: g.Pick(c14TaskIDs), Status: "disabled"})
		case 1:
			sc.Ops = append(sc.Ops, c14Op{Kind: "patchTask", ID: id, NewID: g.Pick(c14TaskIDs)})
		case 2:
			sc.Ops = append(sc.Ops, c14Op{Kind: "patchTask", ID: id, Script: 1 + g.Intn(6)})
		case 3:
			sc.Ops = append(sc.Ops, c14Op{Kind: "patchTask", ID: id, Vars: "int", DBRP: "db2"})
		}
		if sc.Ops[0].Script == 6 && g.Bool() {
			// the pipeline started first fails at run time, after its definition was updated
			if g.Bool() {
				sc.Ops = append(sc.Ops, c14Op{Kind: "boom"})
			} else {
				// ... and while its failure is being recorded the task is given another script and restarted
				last := sc.Ops[len(sc.Ops)-1]
				cur := id
				if last.Kind == "patchTask" && last.NewID != "" {
					cur = last.NewID
				}
				sc.Ops = append(sc.Ops, c14Op{Kind: "boom", NoWait: true},
					c14Op{Kind: "patchTask", ID: cur, Script: 1 + g.Intn(2), Status: "disabled", NoWait: true},
					c14Op{Kind: "patchTask", ID: cur, Status: "enabled"})
			}
		}
	}
	// one case in ten opens with a template that is deleted and created again under its id while tasks still name the
	// old one, followed by a request on one of those tasks (often a rejected one) and an update of the new template
	if len(sc.Ops) == 0 && g.Chance(1, 10) {
		tmplHeavy = true
		sc.Ops = append(sc.Ops,
			c14Op{Kind: "createTemplate", ID: "T1", Script: 1 + g.Intn(2)},
			c14Op{Kind: "createTask", ID: "t1", Template: "T1", DBRP: "db", Status: []string{"enabled", "disabled"}[g.Intn(2)]},
			c14Op{Kind: "createTask", ID: "t1x", Template: "T1", DBRP: "db", Status: []string{"enabled", "disabled"}[g.Intn(2)]},
			c14Op{Kind: "deleteTemplate", ID: "T1"},
			c14Op{Kind: "createTemplate", ID: "T1", Script: 1 + g.Intn(2)},
		)
		switch g.Intn(5) {
		case 0:
			sc.Ops = append(sc.Ops, c14Op{Kind: "patchTask", ID: "t1", NewID: "t1x"}) // taken
		case 1:
			sc.Ops = append(sc.Ops, c14Op{Kind: "createTask", ID: "t1x", Template: "T1", DBRP: "db"}) // exists
		case 2:
			sc.Ops = append(sc.Ops, c14Op{Kind: "patchTask", ID: "t1", Status: []string{"enabled", "disabled"}[g.Intn(2)]})
		case 3:
			sc.Ops = append(sc.Ops, c14Op{Kind: "patchTask", ID: "t1", NewID: "t3", Vars: "bad"}) // rejected
		}
		sc.Ops = append(sc.Ops, c14Op{Kind: "patchTemplate", ID: "T1", Script: 1 + g.Intn(4)})
	}
	// one case in twelve opens with a task that is moved from one template to another, followed by an update of either
	if len(sc.Ops) == 0 && g.Chance(1, 12) {
		tmplHeavy = true
		from, to := "T1", "T1x"
		if g.Bool() {
			from, to = to, from
		}
		sc.Ops = append(sc.Ops,
			c14Op{Kind: "createTemplate", ID: from, Script: 1 + g.Intn(2)},
			c14Op{Kind: "createTemplate", ID: to, Script: 1 + g.Intn(2)},
			c14Op{Kind: "createTask", ID: "t1", Template: from, DBRP: "db", Status: []string{"enabled", "disabled"}[g.Intn(2)]},
			c14Op{Kind: "createTask", ID: "t3", Template: to, DBRP: "db", Status: "disabled"},
			c14Op{Kind: "patchTask", ID: "t1", Template: to},
			c14Op{Kind: "patchTemplate", ID: []string{to, to, from}[g.Intn(3)], Script: 1 + g.Intn(4)},
		)
	}
	for i := 0; i < n; i++ {
		var op c14Op
		k := g.Intn(12)
		if tmplHeavy && i == 0 && len(sc.Ops) == 0 {
			k = 7
		}
		switch k {
		case 0, 1, 2:
			op = c14Op{Kind: "createTask", ID: g.Pick(c14TaskIDs), Script: 1 + g.Intn(7), Status: []string{"enabled", "disabled", ""}[g.Intn(3)], DBRP: "db"}
			if g.Chance(1, 4) || tmplHeavy && g.Chance(2, 3) {
				op.Template, op.Script = g.Pick(c14TmplIDs), 0
			}
			if g.Chance(1, 6) {
				op.DBRP = ""
			}
			if g.Chance(1, 2) {
				op.Vars = vars()
			}
		case 3, 4, 5:
			op = c14Op{Kind: "patchTask", ID: g.Pick(c14TaskIDs)}
			switch g.Intn(8) {
			case 0:
				op.Script = 1 + g.Intn(7)
			case 1:
				op.Status = "enabled"
			case 2:
				op.Status = "disabled"
			case 3:
				op.NewID = g.Pick(c14TaskIDs)
				if g.Chance(1, 2) {
					op.Status = []string{"enabled", "disabled", "disabled"}[g.Intn(3)] // rename and enable/disable in one request
				}
			case 4:
				op.Vars = vars()
			case 5:
				op.DBRP = "db2"
			case 6:
				op.Template = g.Pick(c14TmplIDs)
			default:
				op.Script, op.Status = []int{1, 2, 5, 6, 7}[g.Intn(5)], []string{"enabled", "disabled"}[g.Intn(2)]
				if g.Bool() {
					op.Vars = vars()
				}
			}
		case 6:
			op = c14Op{Kind: "deleteTask", ID: g.Pick(c14TaskIDs)}
		case 7, 8:
			op = c14Op{Kind: "createTemplate", ID: g.Pick(c14TmplIDs), Script: 1 + g.Intn(6)}
		case 9:
			op = c14Op{Kind: "patchTemplate", ID: g.Pick(c14TmplIDs), Script: 1 + g.Intn(6)}
			if g.Chance(1, 5) {
				op.NewID = g.Pick(c14TmplIDs) // the template is renamed (to the other id, or "to itself")
			}
			if g.Chance(1, 5) || tmplHeavy && g.Chance(1, 3) {
				op = c14Op{Kind: "deleteTemplate", ID: g.Pick(c14TmplIDs)}
			}
		case 10:
			op = c14Op{Kind: "restart"}
			if tmplHeavy && g.Bool() {
				op = c14Op{Kind: "patchTemplate", ID: g.Pick(c14TmplIDs), Script: 1 + g.Intn(6)}
				if g.Chance(1, 5) {
					op.NewID = g.Pick(c14TmplIDs) // the template is renamed (to the other id, or "to itself")
				}
			}
		default:
			op = c14Op{Kind: "write"}
			if g.Bool() {
				op = c14Op{Kind: "boom"} // data on which a running pipeline of the sixth script fails
			}
		}
		if burst && g.Chance(2, 3) {
			op.NoWait = true
		}
		sc.Ops = append(sc.Ops, op)
	}
	return sc
}

// ---- reference catalogue ----

type c14MTask struct {
	Script    string
	Enabled   bool
	Template  string
	Vars      string // "", int, float
	DBRP      string // database of the task's single dbrp; "" = none (a task without dbrps cannot be started)
	Orphan    bool   // its template has been deleted since: a later template of the same id is another template
	Started   string // the script the running pipeline was started with (an accepted script change does not reload it)
	StartedDB string // and the database it subscribed to then
	Running   string // outcome of the last start attempt since the task was last enabled: "" (none or failed), ok, ? (either: see patchTemplate)
}

// start models one start attempt: a definition that names an InfluxDB cluster that does not exist is accepted
// (the pipeline is valid) but cannot be started.
func (t *c14MTask) start(poison bool) bool {
	t.Running, t.Started, t.StartedDB = "ok", t.Script, t.DBRP
	if poison && c14ByText[t.Script].Dies {
		t.Running = "?" // data on which this pipeline fails may still be on its way to it
	}
	if c14ByText[t.Script].Fails || t.DBRP == "" {
		t.Running = ""
		if simrt.Active() {
			simrt.Count("probe.start_attempt_failed")
		}
		return false
	}
	return true
}

type c14Model struct {
	Tasks     map[string]c14MTask
	Templates map[string]string
	// template id -> alternative script: after a template update that failed on one of its tasks the property
	// says nothing about the template's own definition; the first observation settles it
	TmplAlt map[string]string
	// Poison: data on which pipelines of the sixth script fail has been written and the daemon has not settled since
	Poison bool
}

func newC14Model() *c14Model {
	return &c14Model{Tasks: map[string]c14MTask{}, Templates: map[string]string{}, TmplAlt: map[string]string{}}
}

func (m *c14Model) clone() *c14Model {
	return &c14Model{Tasks: simrt.CloneMap(m.Tasks), Templates: simrt.CloneMap(m.Templates), TmplAlt: simrt.CloneMap(m.TmplAlt), Poison: m.Poison}
}

// c14Valid: does script s build with the task vars v?
func c14Valid(text, v string) bool {
	s := c14ByText[text]
	if s.Invalid {
		return false
	}
	switch s.Th {
	case "int-default":
		return v != "float"
	case "float-default":
		return v != "int"
	case "float-required":
		return v == "float"
	}
	return true
}

// apply returns whether the request must be accepted (2xx) and updates the catalogue if so.
func (m *c14Model) apply(op c14Op) bool {
	switch op.Kind {
	case "createTask":
		if _, ok := m.Tasks[op.ID]; ok {
			return false
		}
		if op.Vars == "bad" {
			return false
		}
		t := c14MTask{Enabled: op.Status == "enabled", Vars: op.Vars}
		if op.Template != "" {
			ts, ok := m.Templates[op.Template]
			if !ok {
				return false
			}
			t.Script, t.Template = ts, op.Template
		} else {
			t.Script = c14Scripts[op.Script].Text
		}
		if !c14Valid(t.Script, t.Vars) {
			return false
		}
		impl := c14ByText[t.Script].Implicit
		if (impl == "") == (op.DBRP == "") {
			return false // neither or both
		}
		t.DBRP = impl + op.DBRP
		started := true
		if t.Enabled {
			// the definition is saved before the start is attempted: a failed start answers with an error but the task exists
			started = t.start(m.Poison)
		}
		m.Tasks[op.ID] = t
		return started
	case "patchTask":
		t, ok := m.Tasks[op.ID]
		if !ok {
			return false
		}
		if op.Vars == "bad" {
			return false
		}
		old := t
		if op.Template != "" || t.Template != "" {
			id := op.Template
			if id == "" {
				id = t.Template
			}
			ts, ok := m.Templates[id]
			if !ok {
				return false
			}
			t.Script, t.Template, t.Orphan = ts, id, false
		} else if op.Script != 0 {
			t.Script = c14Scripts[op.Script].Text
			if c14Scripts[op.Script].Invalid {
				return false
			}
			if c14ByText[old.Script].Implicit != "" && c14ByText[t.Script].Implicit == "" && op.DBRP == "" {
				return false // the dbrp came from the old script and nothing replaces it
			}
		}
		impl := c14ByText[t.Script].Implicit
		switch {
		case impl != "" && op.DBRP != "":
			return false
		case impl != "":
			t.DBRP = impl
		case op.DBRP != "":
			t.DBRP = op.DBRP
		}
		switch op.Status {
		case "enabled":
			t.Enabled = true
		case "disabled":
			t.Enabled = false
		}
		if op.Vars != "" {
			t.Vars = op.Vars
		}
		if !c14Valid(t.Script, t.Vars) {
			return false
		}
		started := true
		newID := op.ID
		if op.NewID != "" && op.NewID != op.ID {
			if _, exists := m.Tasks[op.NewID]; exists {
				return false
			}
			delete(m.Tasks, op.ID)
			newID = op.NewID
			if old.Enabled && t.Enabled {
				started = t.start(m.Poison) // restarted under the new id
			}
		}
		if started && old.Enabled != t.Enabled {
			if t.Enabled {
				started = t.start(m.Poison)
			} else {
				t.Running = ""
			}
		}
		m.Tasks[newID] = t
		return started
	case "boom":
		for _, id := range simrt.Keys(m.Tasks) {
			if t := m.Tasks[id]; t.Running == "ok" && c14ByText[t.Started].Dies && t.StartedDB == "db" {
				t.Running = "" // the pipeline failed; the task stays enabled, its definition is untouched
				m.Tasks[id] = t
			}
		}
		return true
	case "deleteTask":
		delete(m.Tasks, op.ID)
		return true
	case "createTemplate":
		if _, ok := m.Templates[op.ID]; ok {
			return false
		}
		if c14TScripts[op.Script].Invalid {
			return false
		}
		m.Templates[op.ID] = c14TScripts[op.Script].Text
		return true
	case "deleteTemplate":
		delete(m.Templates, op.ID)
		delete(m.TmplAlt, op.ID)
		for _, id := range simrt.Keys(m.Tasks) {
			if t := m.Tasks[id]; t.Template == op.ID {
				t.Orphan = true // keeps its definition and still names the template
				m.Tasks[id] = t
			}
		}
		return true
	case "patchTemplate":
		oldText, ok := m.Templates[op.ID]
		if !ok {
			return false
		}
		ns := c14TScripts[op.Script]
		if ns.Invalid {
			return false
		}
		newID := op.ID
		if op.NewID != "" && op.NewID != op.ID {
			// the template is given another id: taken ids are refused; its tasks follow it
			if _, taken := m.Templates[op.NewID]; taken {
				return false
			}
			newID = op.NewID
		}
		// all of its tasks or none: the update fails as a whole when an enabled task cannot be reloaded with the new script
		for _, id := range simrt.Keys(m.Tasks) {
			t := m.Tasks[id]
			// (a task whose only dbrp was the old template's cannot run a template that declares none)
			newDBRP := t.DBRP
			if ns.Implicit != "" {
				newDBRP = ns.Implicit
			} else if c14ByText[oldText].Implicit != "" {
				newDBRP = ""
			}
			if t.Template == op.ID && !t.Orphan && t.Enabled && (!c14Valid(ns.Text, t.Vars) || newDBRP == "") {
				m.TmplAlt[op.ID] = ns.Text
				m.rolledBack(op.ID)
				return false
			}
		}
		if newID != op.ID {
			delete(m.Templates, op.ID)
			delete(m.TmplAlt, op.ID)
		}
		m.Templates[newID] = ns.Text
		for _, id := range simrt.Keys(m.Tasks) {
			t := m.Tasks[id]
			if t.Template == op.ID && !t.Orphan {
				t.Script, t.Template = ns.Text, newID
				switch {
				case ns.Implicit != "":
					t.DBRP = ns.Implicit
				case c14ByText[oldText].Implicit != "":
					t.DBRP = "" // the only dbrp the task had was the old template's: it has none now
				}
				if t.Enabled {
					t.start(m.Poison) // an enabled task is reloaded with the new script
				}
				m.Tasks[id] = t
			}
		}
		return true
	}
	return true
}

// rolledBack: a template update that failed part-way.  Rolling back reloads the tasks that had been updated before the
// failing one, the others are left alone: an enabled task of the template either keeps the pipeline it had or has been
// given a new start with its (unchanged) definition.  Where the two differ, which of them it is is not determined.
func (m *c14Model) rolledBack(tmpl string) {
	for _, id := range simrt.Keys(m.Tasks) {
		t := m.Tasks[id]
		if t.Template != tmpl || t.Orphan || !t.Enabled {
			continue
		}
		r := t
		r.start(m.Poison)
		if r.Running != t.Running || r.Started != t.Started || r.StartedDB != t.StartedDB {
			t.Running = "?"
			m.Tasks[id] = t
		}
	}
}

// restarted: after a restart every enabled task is started again.
func (m *c14Model) restarted() {
	m.Poison = false // whatever was on its way is gone with the process
	for _, id := range simrt.Keys(m.Tasks) {
		t := m.Tasks[id]
		t.Running = ""
		if t.Enabled {
			t.start(m.Poison)
		}
		m.Tasks[id] = t
	}
}

func c14Fmt(script string) string {
	f, err := tick.Format(script)
	if err != nil {
		return script
	}
	return f
}

func c14TaskLine(id string, enabled bool, tmpl, script, dbrp, th string) string {
	return fmt.Sprintf("%s{enabled=%v tmpl=%q script#%x dbrp=%s th=%s}", id, enabled, tmpl, hashStr32(script), dbrp, th)
}

func (m *c14Model) describe() string {
	var ss []string
	for _, id := range simrt.Keys(m.Tasks) {
		t := m.Tasks[id]
		th := "-" // the API shows the task's own vars only
		switch t.Vars {
		case "int":
			th = "3"
		case "float":
			th = "2.5"
		}
		ss = append(ss, c14TaskLine(id, t.Enabled, t.Template, c14Fmt(t.Script), t.DBRP, th))
	}
	for _, id := range simrt.Keys(m.Templates) {
		ss = append(ss, fmt.Sprintf("%s{script#%x}", id, hashStr32(c14Fmt(m.Templates[id]))))
	}
	return strings.Join(ss, " ")
}

func hashStr32(s string) uint32 {
	h := uint32(2166136261)
	for i := 0; i < len(s); i++ {
		h ^= uint32(s[i])
		h *= 16777619
	}
	return h
}

// c14Same compares an observed rendering with the model's, honouring the model's "?" fields.
func c14Same(got, want string) bool {
	if got == want {
		return true
	}
	g, w := strings.Fields(got), strings.Fields(want)
	if len(g) != len(w) {
		return false
	}
	for i := range g {
		if g[i] == w[i] {
			continue
		}
		if strings.HasSuffix(w[i], "=?") || strings.HasSuffix(w[i], "=?}") {
			if j := strings.LastIndex(w[i], "="); j < len(g[i]) && g[i][:j] == w[i][:j] {
				continue
			}
		}
		return false
	}
	return true
}

// c14Observe reads the catalogue through the API and renders it like describe().
func c14Observe(d *harness.Daemon) (string, map[string]bool, map[string]string, string) {
	code, body := d.Do("GET", "/kapacitor/v1/tasks?limit=100", "")
	if code != 200 {
		return "", nil, nil, fmt.Sprintf("GET /tasks -> %d %s", code, body)
	}
	type jtask struct {
		ID        string `json:"id"`
		Template  string `json:"template-id"`
		Script    string `json:"script"`
		Status    string `json:"status"`
		Executing bool   `json:"executing"`
		Error     string `json:"error"`
		DBRPs     []struct {
			DB string `json:"db"`
			RP string `json:"rp"`
		} `json:"dbrps"`
		Vars map[string]struct {
			Value interface{} `json:"value"`
			Type  string      `json:"type"`
		} `json:"vars"`
	}
	var tl struct {
		Tasks []jtask `json:"tasks"`
	}
	if err := json.Unmarshal([]byte(body), &tl); err != nil {
		return "", nil, nil, "GET /tasks: " + err.Error()
	}
	code, body = d.Do("GET", "/kapacitor/v1/templates?limit=100", "")
	if code != 200 {
		return "", nil, nil, fmt.Sprintf("GET /templates -> %d %s", code, body)
	}
	var tpl struct {
		Templates []struct {
			ID     string `json:"id"`
			Script string `json:"script"`
		} `json:"templates"`
	}
	if err := json.Unmarshal([]byte(body), &tpl); err != nil {
		return "", nil, nil, "GET /templates: " + err.Error()
	}
	var ss []string
	exec := map[string]bool{}
	tscripts := map[string]string{}
	sort.Slice(tl.Tasks, func(i, j int) bool { return tl.Tasks[i].ID < tl.Tasks[j].ID })
	for _, t := range tl.Tasks {
		var dbs []string
		for _, d := range t.DBRPs {
			dbs = append(dbs, d.DB)
		}
		th := "-"
		if v, ok := t.Vars["th"]; ok {
			th = fmt.Sprint(v.Value)
		}
		ss = append(ss, c14TaskLine(t.ID, t.Status == "enabled", t.Template, t.Script, strings.Join(dbs, "+"), th))
		exec[t.ID] = t.Executing
		// the single-task view must agree with the listing
		c2, b2 := d.Do("GET", "/kapacitor/v1/tasks/"+t.ID, "")
		var one jtask
		if c2 != 200 || json.Unmarshal([]byte(b2), &one) != nil || one.Script != t.Script || one.Status != t.Status || one.Template != t.Template || one.Executing != t.Executing {
			return "", nil, nil, fmt.Sprintf("GET /tasks/%s (-> %d) disagrees with the listing", t.ID, c2)
		}
	}
	sort.Slice(tpl.Templates, func(i, j int) bool { return tpl.Templates[i].ID < tpl.Templates[j].ID })
	for _, t := range tpl.Templates {
		ss = append(ss, fmt.Sprintf("%s{script#%x}", t.ID, hashStr32(t.Script)))
		tscripts[t.ID] = t.Script
	}
	return strings.Join(ss, " "), exec, tscripts, ""
}

func c14VarsJSON(v string) string {
	switch v {
	case "int":
		return `{"th":{"type":"int","value":3}}`
	case "float":
		return `{"th":{"type":"float","value":2.5}}`
	case "bad":
		return `{"th":{"type":"int","value":"x"}}`
	}
	return ""
}

func c14Request(d *harness.Daemon, op c14Op) (int, string) {
	switch op.Kind {
	case "createTask":
		body := fmt.Sprintf(`{"id":%q,"type":"stream"`, op.ID)
		if op.DBRP != "" {
			body += fmt.Sprintf(`,"dbrps":[{"db":%q,"rp":"rp"}]`, op.DBRP)
		}
		if op.Template != "" {
			body += fmt.Sprintf(`,"template-id":%q`, op.Template)
		} else {
			body += fmt.Sprintf(`,"script":%q`, c14Scripts[op.Script].Text)
		}
		if op.Status != "" {
			body += fmt.Sprintf(`,"status":%q`, op.Status)
		}
		if op.Vars != "" {
			body += `,"vars":` + c14VarsJSON(op.Vars)
		}
		return d.Do("POST", "/kapacitor/v1/tasks", body+"}")
	case "patchTask":
		var parts []string
		if op.Script != 0 {
			parts = append(parts, fmt.Sprintf(`"script":%q`, c14Scripts[op.Script].Text))
		}
		if op.Status != "" {
			parts = append(parts, fmt.Sprintf(`"status":%q`, op.Status))
		}
		if op.NewID != "" {
			parts = append(parts, fmt.Sprintf(`"id":%q`, op.NewID))
		}
		if op.Template != "" {
			parts = append(parts, fmt.Sprintf(`"template-id":%q`, op.Template))
		}
		if op.DBRP != "" {
			parts = append(parts, fmt.Sprintf(`"dbrps":[{"db":%q,"rp":"rp"}]`, op.DBRP))
		}
		if op.Vars != "" {
			parts = append(parts, `"vars":`+c14VarsJSON(op.Vars))
		}
		return d.Do("PATCH", "/kapacitor/v1/tasks/"+op.ID, "{"+strings.Join(parts, ",")+"}")
	case "deleteTask":
		return d.Do("DELETE", "/kapacitor/v1/tasks/"+op.ID, "")
	case "createTemplate":
		return d.Do("POST", "/kapacitor/v1/templates", fmt.Sprintf(`{"id":%q,"type":"stream","script":%q}`, op.ID, c14TScripts[op.Script].Text))
	case "deleteTemplate":
		return d.Do("DELETE", "/kapacitor/v1/templates/"+op.ID, "")
	case "patchTemplate":
		if op.NewID != "" {
			return d.Do("PATCH", "/kapacitor/v1/templates/"+op.ID, fmt.Sprintf(`{"id":%q,"script":%q}`, op.NewID, c14TScripts[op.Script].Text))
		}
		return d.Do("PATCH", "/kapacitor/v1/templates/"+op.ID, fmt.Sprintf(`{"script":%q}`, c14TScripts[op.Script].Text))
	}
	return 0, ""
}

type c14Life struct {
	afterCrashUnion bool // catalogue/differs-after-crash: every task of the catalogue before and after the request in flight is shown
	res             *simrt.Result
	verdict         Verdict
	done            int // ops acknowledged (index of the op in flight at a crash)
	model           *c14Model
	copyPath        string
	path            string
	bounds          int
	writes          int
	injected        bool
	opWrites        []int // storage writes (Put/Delete/Commit) issued during each request
	opOK            []bool
}

// c14Run executes ops[from:] on a daemon opened on path. crashAt / failWriteAt as in SimStorage. model is the catalogue before ops[from].
// alt, if not nil, is a second admissible catalogue (the op in flight at the crash may or may not have applied).
func c14Run(c *Ctx, sc *c14Scenario, cfg simrt.Config, path string, from int, model, alt *c14Model, crashAt int, failOp, failK int) *c14Life {
	life := &c14Life{done: from, model: model, opWrites: make([]int, len(sc.Ops)), opOK: make([]bool, len(sc.Ops))}
	var st *harness.SimStorage
	life.res = c.World(cfg, func() {
		open := func(p string) (*harness.Daemon, bool) {
			var err error
			st, err = harness.NewSimStorage(p)
			if err != nil {
				life.verdict = Fail("harness/setup", "open store: %v", err)
				return nil, false
			}
			life.path = st.Path()
			st.CrashAt = crashAt
			d, err := harness.NewDaemon(harness.DaemonOpts{Store: st, WithTaskStore: true, Influx: &harness.FakeInflux{}})
			if err != nil {
				life.verdict = Fail("restart/open", "the daemon cannot open on the stored catalogue: %v", err)
				return nil, false
			}
			return d, true
		}
		verify := func(d *harness.Daemon, when string) bool {
			simrt.WaitIdle()
			got, exec, tscripts, errs := c14Observe(d)
			if errs != "" {
				life.verdict = Fail("api/error", "%s: %s", when, errs)
				return false
			}
			settle := func(m *c14Model) {
				// a template whose update failed on one of its tasks may show the old or the new script
				for _, id := range simrt.Keys(m.TmplAlt) {
					if tscripts[id] == c14Fmt(m.TmplAlt[id]) {
						m.Templates[id] = m.TmplAlt[id]
					}
					delete(m.TmplAlt, id)
				}
			}
			settle(life.model)
			want := life.model.describe()
			if !c14Same(got, want) {
				if alt != nil {
					settle(alt)
				}
				if alt != nil && c14Same(got, alt.describe()) {
					life.model = alt // the request in flight at the crash did apply
					alt = nil
					want = got
				} else {
					cls := "catalogue/differs"
					detail := fmt.Sprintf("%s the API shows\n  %s\nthe accepted requests give\n  %s", when, got, want)
					if alt != nil {
						detail += "\nor, if the request in flight at the crash applied,\n  " + alt.describe()
						cls = "catalogue/differs-after-crash"
						// what the API shows: the tasks of before and of after the request side by side (both ids of a rename,
						// say), or something else (a task missing altogether)?
						union := true
						for _, m := range []*c14Model{life.model, alt} {
							for id := range m.Tasks {
								if !strings.Contains(got, id+"{") {
									union = false
								}
							}
						}
						life.afterCrashUnion = union
					}
					life.verdict = Fail(cls, "%s", detail)
					return false
				}
			}
			alt = nil
			life.model.Poison = false // verify() starts with WaitIdle: everything written has been processed
			for _, id := range c14TaskIDs {
				if _, ok := life.model.Tasks[id]; !ok && d.TM.IsExecuting(id) {
					life.verdict = Fail("executing/ghost", "%s the API shows no task %s, yet the task master is still executing a task of that id", when, id)
					return false
				}
			}
			for _, id := range simrt.Keys(life.model.Tasks) {
				t := life.model.Tasks[id]
				if t.Running == "?" {
					// the daemon has settled: what is observed now is the outcome (as far as it says which pipeline runs)
					switch {
					case !exec[id]:
						t.Running = ""
						life.model.Tasks[id] = t
					case t.Started == t.Script && t.StartedDB == t.DBRP:
						t.Running = "ok"
						life.model.Tasks[id] = t
					}
					continue
				}
				if exec[id] != (t.Running == "ok") {
					life.verdict = Fail("executing/out-of-step", "%s task %s is enabled=%v, its last start attempt %s, but the API says executing=%v", when, id, t.Enabled,
						map[string]string{"": "failed or never happened", "ok": "succeeded"}[t.Running], exec[id])
					return false
				}
			}
			return true
		}
		d, ok := open(path)
		if !ok {
			return
		}
		if from > 0 || alt != nil {
			life.model.restarted()
			if alt != nil {
				alt.restarted()
			}
			if !verify(d, "after the restart") {
				return
			}
		}
		for i := from; i < len(sc.Ops); i++ {
			op := sc.Ops[i]
			life.done = i
			switch op.Kind {
			case "restart":
				done := simrt.Expect("clean shutdown", 3_000_000, time.Hour)
				d.Shutdown()
				st.Close()
				done()
				simrt.Count("fault.restart.clean")
				if d, ok = open(st.Path()); !ok {
					return
				}
				life.done = i + 1
				life.model.restarted()
				if !verify(d, fmt.Sprintf("after the clean restart (op #%d)", i)) {
					return
				}
				continue
			case "write":
				d.WriteLine("db", "rp", "m v=1i 1000000000\nm2 v=1i 1000000000\ntm v=1i 1000000000\n")
				life.done = i + 1
				continue
			case "boom":
				d.WriteLine("db", "rp", "boom v=1i 1000000000\nboom v=2i 1000000000\nboom v=3i 1000000000\nboom v=4i 2000000000\n")
				life.model.apply(op)
				life.done = i + 1
				simrt.Count("probe.poison_written")
				if op.NoWait && i+1 < len(sc.Ops) {
					// the next requests meet the start-failure bookkeeping of the dying pipelines in flight
					life.model.Poison = true
					simrt.Count("probe.request_while_pipeline_dies")
					continue
				}
				if !verify(d, fmt.Sprintf("after op #%d (data on which pipelines of the sixth script fail)", i)) {
					return
				}
				continue
			}
			before := life.model.clone()
			writesBefore := st.Writes
			st.FailWriteAt = 0
			if failK > 0 && i == failOp {
				st.FailWriteAt = st.Writes + failK
			}
			done := simrt.Expect("API request "+op.Kind, 3_000_000, time.Hour)
			code, body := c14Request(d, op)
			done()
			life.opWrites[i] = st.Writes - writesBefore
			life.opOK[i] = code >= 200 && code < 300
			accepted := code >= 200 && code < 300
			injected := st.FailWriteAt > 0 && st.Writes >= st.FailWriteAt
			if injected {
				simrt.Count("fault.storage.write_error")
			}
			st.FailWriteAt = 0
			must := life.model.apply(op)
			if injected {
				life.injected = true
				// an injected storage failure may fail the request; the catalogue must then be unchanged, or fully changed if it was accepted
				if !accepted {
					life.model = before
					if _, ok := before.Templates[op.ID]; ok && op.Kind == "patchTemplate" && !c14TScripts[op.Script].Invalid {
						before.TmplAlt[op.ID] = c14TScripts[op.Script].Text
						before.rolledBack(op.ID)
					}
				}
			}
			if accepted != must && !(injected && !accepted) {
				life.verdict = Fail("api/acceptance", "op #%d %+v was answered %d (%s) but the reference catalogue says accepted=%v; catalogue before: %s", i, op, code, truncateStr(body, 200), must, before.describe())
				return
			}
			life.done = i + 1
			if op.NoWait && i+1 < len(sc.Ops) && !injected {
				simrt.Count("probe.request_without_settling")
				continue
			}
			if !verify(d, fmt.Sprintf("after op #%d %+v (-> %d)", i, op, code)) {
				if injected {
					life.verdict.Class = "atomicity/" + life.verdict.Class
					life.verdict.Detail = fmt.Sprintf("[storage write #%d of this request failed] ", failK) + life.verdict.Detail
				}
				return
			}
		}
	})
	if st != nil {
		life.bounds, life.writes, life.copyPath = st.Boundaries, st.Writes, st.CrashCopy
	}
	return life
}

// ---- a catalogue of several hundred tasks: listing pages and the restart see every one of them ----

type c14BulkScenario struct {
	Kind    string `json:"kind"`
	Total   int    `json:"tasks"`
	Enabled []int  `json:"enabled_positions"` // positions (in id order) of the enabled tasks
	Page    int    `json:"listing_page_size"`
	Config  string `json:"config"`
}

func runC14Bulk(c *Ctx) Verdict {
	g := c.G
	sc := &c14BulkScenario{Kind: "large catalogue", Total: g.Range(195, 330), Page: []int{100, 50, 64, 7}[g.Intn(4)]}
	for i := 0; i < sc.Total; i++ {
		// few enabled tasks, spread over the whole id range and always some near the end
		if g.Chance(1, 16) || i >= sc.Total-3 {
			sc.Enabled = append(sc.Enabled, i)
		}
	}
	c.Scenario = sc
	cfg := c.WorldConfig()
	cfg.MaxSteps = 30_000_000
	sc.Config = fmt.Sprintf("%v p=%.2f", cfg.Strategy, cfg.SwitchProb)
	var verdict Verdict
	enabled := map[string]bool{}
	for _, i := range sc.Enabled {
		enabled[fmt.Sprintf("k%03d", i)] = true
	}
	res := c.World(cfg, func() {
		st, err := harness.NewSimStorage("")
		if err != nil {
			verdict = Fail("harness/setup", "open store: %v", err)
			return
		}
		d, err := harness.NewDaemon(harness.DaemonOpts{Store: st, WithTaskStore: true, Influx: &harness.FakeInflux{}})
		if err != nil {
			verdict = Fail("harness/setup", "daemon: %v", err)
			return
		}
		done := simrt.Expect("creating the tasks", 30_000_000, 24*time.Hour)
		for i := 0; i < sc.Total; i++ {
			id := fmt.Sprintf("k%03d", i)
			status := "disabled"
			if enabled[id] {
				status = "enabled"
			}
			if code, body := c14Request(d, c14Op{Kind: "createTask", ID: id, Script: 1, Status: status, DBRP: "db"}); code != 200 {
				verdict = Fail("harness/setup", "create %s -> %d %s", id, code, body)
				return
			}
		}
		done()
		check := func(when string) bool {
			simrt.WaitIdle()
			// every task appears exactly once when the listing is read page by page
			seen := map[string]int{}
			exec := map[string]bool{}
			for off := 0; off < sc.Total+sc.Page; off += sc.Page {
				code, body := d.Do("GET", fmt.Sprintf("/kapacitor/v1/tasks?offset=%d&limit=%d&fields=id&fields=status&fields=executing", off, sc.Page), "")
				var tl struct {
					Tasks []struct {
						ID        string `json:"id"`
						Status    string `json:"status"`
						Executing bool   `json:"executing"`
					} `json:"tasks"`
				}
				if code != 200 || json.Unmarshal([]byte(body), &tl) != nil {
					verdict = Fail("api/error", "%s: GET /tasks offset %d -> %d %s", when, off, code, truncateStr(body, 200))
					return false
				}
				for _, t := range tl.Tasks {
					seen[t.ID]++
					exec[t.ID] = t.Executing
					if (t.Status == "enabled") != enabled[t.ID] {
						verdict = Fail("catalogue/differs", "%s: task %s is listed as %s, it was created enabled=%v", when, t.ID, t.Status, enabled[t.ID])
						return false
					}
				}
			}
			for i := 0; i < sc.Total; i++ {
				id := fmt.Sprintf("k%03d", i)
				if seen[id] != 1 {
					verdict = Fail("catalogue/differs", "%s: reading the listing of %d tasks in pages of %d shows task %s %d times", when, sc.Total, sc.Page, id, seen[id])
					return false
				}
				if exec[id] != enabled[id] || d.TM.IsExecuting(id) != enabled[id] {
					verdict = Fail("executing/out-of-step", "%s: task %s (position %d of %d in id order) is enabled=%v (its start succeeds), the API says executing=%v and the task master %v", when, id, i, sc.Total, enabled[id], exec[id], d.TM.IsExecuting(id))
					return false
				}
			}
			if len(seen) != sc.Total {
				verdict = Fail("catalogue/differs", "%s: the listing shows %d tasks, %d were defined", when, len(seen), sc.Total)
				return false
			}
			return true
		}
		if !check("after creating the tasks") {
			return
		}
		done = simrt.Expect("clean shutdown", 30_000_000, time.Hour)
		d.Shutdown()
		st.Close()
		done()
		simrt.Count("fault.restart.clean")
		st2, err := harness.NewSimStorage(st.Path())
		if err != nil {
			verdict = Fail("harness/setup", "reopen store: %v", err)
			return
		}
		done = simrt.Expect("restart", 30_000_000, 24*time.Hour)
		d, err = harness.NewDaemon(harness.DaemonOpts{Store: st2, WithTaskStore: true, Influx: &harness.FakeInflux{}})
		done()
		if err != nil {
			verdict = Fail("restart/open", "the daemon cannot open on the stored catalogue: %v", err)
			return
		}
		check("after the restart")
	})
	if v, bad := WorldVerdict(res, false); bad {
		return v
	}
	if verdict.Class != "" {
		verdict.Shape = map[string]interface{}{"large_catalogue": true}
		return verdict
	}
	return Pass()
}

func runC14(c *Ctx) Verdict {
	if c.G.Chance(1, 120) {
		return runC14Bulk(c)
	}
	sc := c14Gen(c)
	c.Scenario = sc
	cfg := c.WorldConfig()
	cfg.MaxSteps = 4_000_000
	if cfg.Strategy == simrt.StratStarve {
		// hold back the goroutines that watch a started task for its failure, or the API client itself
		cfg.StarveRole = []string{"services/task_store/service.go", "c14.go", "node.go"}[c.G.Intn(3)]
	}
	sc.Config = fmt.Sprintf("%v p=%.2f starve=%s", cfg.Strategy, cfg.SwitchProb, cfg.StarveRole)
	base := c14Run(c, sc, cfg, "", 0, newC14Model(), nil, 0, -1, 0)
	if v, bad := WorldVerdict(base.res, false); bad {
		return v
	}
	if base.verdict.Class != "" {
		return base.verdict
	}
	sc.Boundaries, sc.Writes = base.bounds, base.writes
	if c.FaultFree {
		return Pass()
	}
	pick := func(total, max int) []int {
		var out []int
		if total <= max || c.Thorough() && total <= 4*max {
			for i := 1; i <= total; i++ {
				out = append(out, i)
			}
			return out
		}
		seen := map[int]bool{}
		for tries := 0; len(out) < max && tries < 4*max; tries++ {
			b := 1 + c.G.Intn(total)
			if !seen[b] {
				seen[b] = true
				out = append(out, b)
			}
		}
		sort.Ints(out)
		return out
	}
	phase := c.G.Intn(3) // 0: write failures, 1: crashes, 2: both
	sc.Phase = []string{"write-failures", "crashes", "both"}[phase]
	// (1) an injected failure at the k-th underlying storage write of one request
	var cand [][2]int
	for i, n := range base.opWrites {
		if sc.Ops[i].Kind != "patchTemplate" || !base.opOK[i] || (sc.Ops[i].NewID != "" && sc.Ops[i].NewID != sc.Ops[i].ID) {
			// (and a single fault: an update that fails anyway and then meets a storage error while rolling back is a double fault)
			// the property names one operation that must be all-or-none when it fails part-way; storage errors
			// inside other requests are outside its quantifier (DESIGN.md, C14 observations)
			continue
		}
		for k := 1; k <= n; k++ {
			cand = append(cand, [2]int{i, k})
		}
	}
	if phase != 1 {
		for _, ci := range pick(len(cand), 8) {
			sc.FailWrites = append(sc.FailWrites, cand[ci-1])
		}
	}
	for _, f := range sc.FailWrites {
		l := c14Run(c, sc, cfg, "", 0, newC14Model(), nil, 0, f[0], f[1])
		shape := map[string]interface{}{"fault": "storage-write", "op": sc.Ops[f[0]].Kind}
		if v, bad := WorldVerdict(l.res, false); bad {
			v.Detail = fmt.Sprintf("[storage write #%d of op #%d fails] ", f[1], f[0]) + v.Detail
			v.Shape = shape
			if c.Report(v) {
				return v
			}
			continue
		}
		if l.verdict.Class != "" {
			l.verdict.Shape = shape
			if c.Report(l.verdict) {
				return l.verdict
			}
			continue
		}
		if !l.injected {
			c.Counters["obs.write_fault_not_reached"]++
		}
	}
	// (2) a crash at storage transaction boundaries, restart on the durable copy, continue
	if phase != 0 {
		sc.CrashAt = pick(base.bounds, 8)
	}
	for _, b := range sc.CrashAt {
		l1 := c14Run(c, sc, cfg, "", 0, newC14Model(), nil, b, -1, 0)
		if l1.res.Status != simrt.StatusCrash {
			if v, bad := WorldVerdict(l1.res, false); bad {
				return v
			}
			c.Counters["obs.crash_boundary_not_reached"]++
			continue
		}
		// the op in flight (index l1.done) may or may not have applied
		pre := l1.model
		post := pre.clone()
		inflight := c14Op{Kind: "none"}
		if l1.done < len(sc.Ops) {
			inflight = sc.Ops[l1.done]
			post.apply(inflight)
			if _, ok := pre.Templates[inflight.ID]; ok && inflight.Kind == "patchTemplate" && !c14TScripts[inflight.Script].Invalid {
				pre.TmplAlt[inflight.ID] = c14TScripts[inflight.Script].Text
			}
		}
		// the task of the request in flight names a template that was deleted and exists again under that id
		recreated := false
		if t, ok := pre.Tasks[inflight.ID]; ok && inflight.Kind == "patchTask" && t.Orphan {
			_, recreated = pre.Templates[t.Template]
		}
		cfg2 := cfg
		cfg2.Seed = cfg.Seed ^ uint64(b)*0x9E3779B97F4A7C15
		next := l1.done + 1
		if inflight.Kind == "restart" || inflight.Kind == "write" || inflight.Kind == "none" {
			post = nil
		}
		l2 := c14Run(c, sc, cfg2, l1.copyPath, minInt(next, len(sc.Ops)), pre, post, 0, -1, 0)
		os.Remove(l1.copyPath)
		shape := map[string]interface{}{"fault": "crash", "op_in_flight": inflight.Kind, "rename": inflight.Kind == "patchTask" && inflight.NewID != "" && inflight.NewID != inflight.ID, "task_names_recreated_template": recreated}
		if v, bad := WorldVerdict(l2.res, false); bad {
			v.Detail = fmt.Sprintf("[second life after a crash at storage boundary %d of %d, during op #%d %+v] ", b, base.bounds, l1.done, inflight) + v.Detail
			v.Shape = shape
			if c.Report(v) {
				return v
			}
			continue
		}
		if l2.verdict.Class != "" {
			l2.verdict.Detail = fmt.Sprintf("[crash at storage boundary %d of %d, during op #%d %+v] ", b, base.bounds, l1.done, inflight) + l2.verdict.Detail
			l2.verdict.Shape = shape
			if l2.verdict.Class == "catalogue/differs-after-crash" {
				shape["shows_the_tasks_of_before_and_after_side_by_side"] = l2.afterCrashUnion
			}
			if c.Report(l2.verdict) {
				return l2.verdict
			}
			continue
		}
	}
	return c.Finish()
}

func minInt(a, b int) int {
	if a < b {
		return a
	}
	return b
}

func init() {
	Register(&Prop{
		ID:  "C14",
		Run: runC14,
		Rule: "case = a history of 3-12/25 API requests (create task from a script or a template, patch script/status/id/template/vars/dbrps, delete, create and patch templates; valid and deliberately rejected ones, template updates that fail on one of their tasks, definitions whose start fails, a definition whose running pipeline fails on certain data (written by a 'boom' operation), some requests issued back to back) over 4 task ids and 2 template ids (one id a prefix of another in both sets), template deletion, interleaved with clean restarts and data writes, issued against the real HTTP handler; after every acknowledged request and every restart the catalogue read through GET /tasks, /tasks/<id> and /templates is compared with a reference catalogue, and executing with enabled; the history is then re-executed with an injected failure at up to 8 underlying storage writes inside accepted template updates, and with a crash at up to 8 storage transaction boundaries followed by a restart on a byte copy of the Bolt file and the rest of the history; " +
			"one opening in twelve moves a task from one template to another and then updates one of the two; a fifth of the template updates also give the template another id (taken ids are refused; its tasks follow it); (round 3) one opening in ten deletes a template and creates it again while tasks still name it, followed by a (often rejected) request on one of them and an update of the new template; one case in 120 instead defines 195-330 tasks (a sixteenth enabled, some at the end of the id order), reads the listing page by page (page 7-100), restarts cleanly and requires every enabled task to execute again; " +
			"non-trivial = every case; distinct = distinct (scenario, interleaving signatures) tuples",
		Real:        []string{"services/task_store Service (Open, HTTP handlers, DAOs, updateAllAssociatedTasks, startTask watcher)", "services/storage IndexedStore + Bolt adapter + real bbolt file", "services/httpd Handler routing", "TaskMaster (StartTask/StopTask/DeleteTask), pipeline construction, tick parser/evaluator/formatter"},
		Stub:        []string{"harness StorageService wrapper: crash = abandon the world at a transaction boundary + byte copy; failing Put/Delete/Commit", "server.Server wiring replaced by the harness (storage, alert, task master, task store opened in server order)"},
		Assumptions: []string{"a request in flight at a crash may or may not have applied: both catalogues are admissible", "scripts are compared in the formatted form the API returns (tick.Format of the model's script)", "the vocabulary is 7 task scripts and 6 template scripts whose declared vars/dbrps/startability are written down by hand in the model", "a template created after the deletion of one with the same id is another template: tasks of the deleted one are not its tasks until a request gives them that template again", "running batch tasks and template id changes are not part of the generated histories (the one batch definition cannot be started)"},
	})
}
