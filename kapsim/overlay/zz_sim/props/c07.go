package props

import (
	"encoding/json"
	"errors"
	"fmt"
	"io"
	"net/http"
	"sort"
	"strings"
	"sync"
	"time"

	"github.com/influxdata/kapacitor"
	"github.com/influxdata/kapacitor/zz_sim/harness"
	"github.com/influxdata/kapacitor/zz_sim/simrt"
)

// C07 — a graceful stop processes everything already accepted, then terminates.

type c07Scenario struct {
	Shape     string `json:"pipeline"` // influx | alert | loopback | log | fork | join
	Script    string `json:"script"`
	ScriptB   string `json:"script_b,omitempty"`
	Writers   []int  `json:"writers"` // points per writer
	StopAfter int    `json:"stop_after_acks"`
	Stop      string `json:"stop"`      // stop | delete | close
	SlowSink  int    `json:"slow_sink"` // 0 no, else virtual microseconds per output call
	InfluxBuf int    `json:"influx_buffer"`
	FlushMs   int    `json:"flush_ms"`
	NodeFail  int    `json:"node_fail_at"`                                // 0 none, else n-th message consumed by the failing node
	Immediate bool   `json:"immediate"`                                   // true: stop at once; false: first let the ingest queue in front of the task drain
	AnonTopic bool   `json:"alert_also_on_its_anonymous_topic,omitempty"` // the alert node has a handler of its own: its anonymous topic is closed when the node ends
	Waiter    bool   `json:"someone_waits_for_the_task,omitempty"`        // a goroutine sits in ExecutingTask.Wait() for the life of the task, as the task store's does
	QueryMs   int    `json:"query_ms,omitempty"`                          // batch shape: latency of the (fake) InfluxDB query
	StopAtMs  int    `json:"stop_at_ms,omitempty"`                        // batch shape: the stop is requested after this much virtual time
	Config    string `json:"config"`
}

func c07Gen(c *Ctx) *c07Scenario {
	g := c.G
	sc := &c07Scenario{}
	sc.Shape = []string{"influx", "log", "alert", "loopback", "fork", "join", "failnode", "union", "batch", "failnode2", "httppost"}[g.Intn(11)]
	sc.Waiter = g.Bool()
	sc.InfluxBuf = []int{1000, 1, 2, 5}[g.Intn(4)]
	sc.FlushMs = []int{10000, 1, 50}[g.Intn(3)]
	nw := g.Range(1, 3)
	maxPts := 30
	if c.Thorough() {
		maxPts = 120
	}
	total := 0
	for i := 0; i < nw; i++ {
		n := g.Range(1, maxPts)
		sc.Writers = append(sc.Writers, n)
		total += n
	}
	sc.StopAfter = g.Intn(total + 1)
	sc.Stop = []string{"stop", "delete", "close"}[g.Intn(3)]
	sc.Immediate = g.Chance(1, 8) || sc.Shape == "failnode" || sc.Shape == "failnode2"
	if sc.Shape == "loopback" && sc.Stop == "close" {
		sc.Stop = "stop"
	}
	if !c.FaultFree && g.Chance(1, 2) {
		sc.SlowSink = []int{1, 50, 1000, 200000}[g.Intn(4)]
	}
	out := func(i int) string {
		return fmt.Sprintf("|influxDBOut().database('out').retentionPolicy('orp').measurement('o%d').buffer(%d).flushInterval(%dms)", i, sc.InfluxBuf, sc.FlushMs)
	}
	alert := "|alert().id('a{{ index .Tags \"host\" }}').message('{{ index .Fields \"w\" }}/{{ index .Fields \"s\" }}').crit(lambda: \"v\" >= 0).topic('t7')"
	if (sc.Shape == "alert" || sc.Shape == "fork") && g.Bool() {
		sc.AnonTopic = true
		alert += ".log('/dev/null')"
	}
	in := "|log().prefix('A/in')\n    "
	switch sc.Shape {
	case "influx":
		sc.Script = "stream\n    |from().measurement('m')\n    " + in + out(0) + "\n"
	case "httppost":
		// the node posts every point to an HTTP endpoint (http.DefaultClient; its transport is the recording sink here)
		sc.Script = "stream\n    |from().measurement('m')\n    " + in + "|httpPost('http://sink.invalid/points')\n"
	case "log":
		sc.Script = "stream\n    |from().measurement('m')\n    " + in + "|eval(lambda: \"v\" + 1).as('v1').keep()\n    |log().prefix('A/0')\n"
	case "failnode":
		// the first branch fails on the first point it sees (the id template cannot be rendered); the other
		// branches, among them one that is driven by a timer and not by data, must still terminate on stop
		sc.Script = "var s = stream\n    |from().measurement('m')\n    |log().prefix('A/in')\ns\n    |alert().id('{{ .NoSuchField }}').crit(lambda: \"v\" >= 0).topic('t7')\ns\n    |stats(10ms)\n    |log().prefix('A/stats')\ns\n    |where(lambda: \"v\" >= 0)\n    " + out(0) + "\n"
	case "alert":
		sc.Script = "stream\n    |from().measurement('m')\n    " + in + alert + "\n"
	case "loopback":
		sc.Script = "stream\n    |from().measurement('m')\n    " + in + "|kapacitorLoopback().database('db2').retentionPolicy('rp2')\n"
		sc.ScriptB = "stream\n    |from().measurement('m')\n    |log().prefix('B/0')\n"
	case "fork":
		sc.Script = "var s = stream\n    |from().measurement('m')\n    |log().prefix('A/in')\ns\n    |where(lambda: \"v\" >= 0)\n    " + out(0) + "\ns\n    |log().prefix('A/0')\ns\n    " + alert + "\n"
	case "failnode2":
		// a node in the middle fails (combine refuses more than max combinations once three points share a rounded
		// time) while its sibling feeds the same union / join and an output node sits below: everything must still end
		bad := "var bad = s\n    |combine(lambda: TRUE, lambda: TRUE).as('a', 'b').tolerance(10s).max(1)\n"
		good := "var good = s\n    |where(lambda: \"v\" >= 0)\n"
		head := "var s = stream\n    |from().measurement('m')\n    |log().prefix('A/in')\n"
		switch g.Intn(3) {
		case 0:
			sc.Script = head + bad + good + "bad\n    |union(good)\n    " + out(0) + "\n"
		case 1:
			sc.Script = head + bad + good + "good\n    |join(bad).as('g', 'b').tolerance(1s).fill(0)\n    |log().prefix('A/0')\n"
		default:
			sc.Script = head + bad + good + "bad\n    |window().period(2s).every(2s)\n    |count('a.v')\n    " + out(0) + "\ngood\n    |stats(10ms)\n    |log().prefix('A/stats')\n"
		}
	case "union":
		// two parents that are at different timestamps when the stop arrives: what the union holds back for the one
		// that is behind is owed to the sink all the same
		sc.Script = "var a = stream\n    |from().measurement('m').where(lambda: \"w\" == 0)\n    |log().prefix('A/in')\nvar b = stream\n    |from().measurement('m').where(lambda: \"w\" != 0)\n    |log().prefix('A/in')\na\n    |union(b)\n    |log().prefix('A/0')\n"
	case "batch":
		// a batch task (termination only): the stop arrives while a query is running and, with slow queries, the next tick is already due
		sc.QueryMs = []int{0, 300, 700, 1200, 2600}[g.Intn(5)]
		sc.StopAtMs = g.Intn(4000)
		sched := []string{".every(500ms)", ".every(500ms).align()", ".every(1s).align()", ".cron('* * * * * * *')"}[g.Intn(4)]
		sc.Script = "batch\n    |query('SELECT v FROM \"db\".\"rp\".\"m\"')\n        .period(1s)\n        " + sched + "\n    |log().prefix('A/0')\n"
		sc.Writers, sc.StopAfter, sc.Immediate = nil, 0, true
	case "join":
		sc.Script = "var a = stream\n    |from().measurement('m').groupBy('host')\n    |log().prefix('A/in')\nvar b = stream\n    |from().measurement('m').groupBy('host')\n    |eval(lambda: \"v\" * 2).as('v')\na\n    |join(b).as('a', 'b')\n    |log().prefix('A/0')\n"
	}
	return sc
}

type c07Ack struct {
	w, s    int
	ackedAt int64 // stamp when the write returned 204
}

func runC07(c *Ctx) Verdict {
	sc := c07Gen(c)
	c.Scenario = sc
	cfg := c.WorldConfig()
	// the alert event queue drops on overflow by design; keep its shipped size so that overflow is not in play here
	delete(cfg.Knobs, "MinimumEventBufferSize")
	delete(cfg.Knobs, "DefaultEventBufferSize")
	if cfg.Strategy == simrt.StratStarve {
		cfg.StarveRole = []string{"node.go", "influxdb_out.go", "alert/topics.go", "task_master.go"}[c.G.Intn(4)]
	}
	sc.Config = fmt.Sprintf("%v p=%.2f knobs=%v late=%d", cfg.Strategy, cfg.SwitchProb, cfg.Knobs, cfg.TimerLateNs)
	cfg.MaxSteps = 6_000_000

	var verdict Verdict
	var acks []c07Ack
	var stopStamp int64
	var d *harness.Daemon
	rec := &harness.RecHandler{Name: "h7"}
	recAnon := &harness.RecHandler{Name: "h7anon"}
	fi := &harness.FakeInflux{}
	var leaked []simrt.ParkedInfo
	slow := func() {
		if sc.SlowSink > 0 {
			time.Sleep(time.Duration(sc.SlowSink) * time.Microsecond)
			simrt.Count("fault.sink.slow")
		}
	}
	closeAlertAtOnce := sc.Stop == "close" && len(sc.Writers)%2 == 1 // (half of the close cases; no extra draw from the tape)
	posted := &c07Transport{slow: slow}
	if sc.Shape == "httppost" {
		old := http.DefaultClient.Transport
		http.DefaultClient.Transport = posted
		defer func() { http.DefaultClient.Transport = old }()
	}
	res := c.World(cfg, func() {
		var err error
		d, err = harness.NewDaemon(harness.DaemonOpts{Influx: fi})
		if err != nil {
			verdict = Fail("harness/setup", "daemon: %v", err)
			return
		}
		fi.WriteLatency = func() time.Duration { return time.Duration(sc.SlowSink) * time.Microsecond }
		rec.Delay = slow
		d.Sinks.Delay = func(key string) {
			if key != "A/in" {
				slow()
			}
		}
		d.Alert.RegisterAnonHandler("t7", rec)
		if sc.AnonTopic {
			// the node's anonymous topic is main:A:alert<N>; N depends on the shape
			recAnon.Delay = slow
			for n := 2; n <= 9; n++ {
				d.Alert.RegisterAnonHandler(fmt.Sprintf("main:A:alert%d", n), recAnon)
			}
		}
		if sc.ScriptB != "" {
			tb, err := d.Define("B", sc.ScriptB, kapacitor.StreamTask, []kapacitor.DBRP{{Database: "db2", RetentionPolicy: "rp2"}})
			if err != nil {
				verdict = Fail("harness/setup", "define B: %v", err)
				return
			}
			if _, err := d.TM.StartTask(tb); err != nil {
				verdict = Fail("harness/setup", "start B: %v", err)
				return
			}
		}
		tt := kapacitor.StreamTask
		if sc.Shape == "batch" {
			tt = kapacitor.BatchTask
			fi.QueryLatency = func() time.Duration { return time.Duration(sc.QueryMs) * time.Millisecond }
		}
		ta, err := d.Define("A", sc.Script, tt, []kapacitor.DBRP{{Database: "db", RetentionPolicy: "rp"}})
		if err != nil {
			verdict = Fail("harness/setup", "define A: %v\n%s", err, sc.Script)
			return
		}
		g0 := simrt.GoroutineCount()
		et, err := d.TM.StartTask(ta)
		if err != nil {
			verdict = Fail("harness/setup", "start A: %v", err)
			return
		}
		if sc.Shape == "batch" {
			if err := et.StartBatching(); err != nil { // as services/task_store does right after StartTask
				verdict = Fail("harness/setup", "StartBatching: %v", err)
				return
			}
		}
		g1 := simrt.GoroutineCount()
		if sc.Waiter {
			go et.Wait() // services/task_store does this for every task it starts, to record its failure
		}
		if sc.Shape == "batch" {
			time.Sleep(time.Duration(sc.StopAtMs) * time.Millisecond)
		}
		var wg sync.WaitGroup
		nacks := 0
		paused := false
		inflight := 0
		for w, n := range sc.Writers {
			wg.Add(1)
			go func(w, n int) {
				defer wg.Done()
				for s := 0; s < n; s++ {
					if paused {
						simrt.Park("c07.paused", func() bool { return !paused })
					}
					inflight++
					line := fmt.Sprintf("m,host=h%d w=%di,s=%di,v=%di %d\n", w, w, s, s%7, int64(1e9)*int64(s+1)+int64(w))
					code := d.WriteLine("db", "rp", line)
					inflight--
					if code == 204 {
						acks = append(acks, c07Ack{w: w, s: s, ackedAt: simrt.Stamp()})
						nacks++
					}
				}
			}(w, n)
		}
		simrt.Park("c07.waitacks", func() bool { return nacks >= sc.StopAfter })
		if !sc.Immediate {
			// let everything acknowledged so far reach the task's first node; what is still in flight
			// when the stop arrives then sits inside the pipeline (edges, buffers, outputs)
			paused = true
			done := simrt.Expect("ingest queue drains", 3_000_000, 30*time.Minute)
			simrt.Park("c07.drain", func() bool { return inflight == 0 && len(d.Sinks.Get("A/in")) >= nacks })
			done()
			paused = false
		} else {
			simrt.Count("probe.stop_with_ingest_backlog")
		}
		if sc.SlowSink > 0 || cfg.Knobs["defaultEdgeBufferSize"] > 0 {
			simrt.Count("probe.stop_with_backpressure")
		}
		stopStamp = simrt.Stamp()
		done := simrt.Expect(sc.Stop+" task", 3_000_000, time.Hour)
		switch sc.Stop {
		case "stop":
			d.TM.StopTask("A")
		case "delete":
			d.TM.DeleteTask("A")
		case "close":
			d.TM.Close()
			if closeAlertAtOnce {
				// a daemon shutting down closes its services one after the other without waiting for anything to
				// settle in between: what the topic handlers still have queued is owed to them all the same
				done()
				done = simrt.Expect("alert service close", 3_000_000, 24*time.Hour)
				d.Alert.Close()
			}
		}
		done()
		simrt.Fair()
		done = simrt.Expect("writers return after "+sc.Stop, 3_000_000, time.Hour)
		wg.Wait()
		done()
		simrt.WaitIdle()
		if sc.Stop == "close" && !closeAlertAtOnce {
			done = simrt.Expect("alert service close", 3_000_000, 24*time.Hour)
			d.Alert.Close()
			done()
			simrt.WaitIdle()
		}
		leaked = simrt.LiveDescendants(g0, g1)
	})
	if v, bad := WorldVerdict(res, false); bad {
		v.Shape = map[string]interface{}{"pipeline": sc.Shape, "stop": sc.Stop}
		if sc.Shape == "loopback" && (v.Class == "hang:ingest queue drains" || (stopStamp == 0 && v.Class == "harness/budget")) {
			// A feedback loop over bounded queues (task -> loopback -> ingest queue -> task) can stall on its own
			// once every buffer in the cycle is full. That happens before any stop is requested, so it is outside
			// this property; the case is counted and skipped.
			c.Trivial = true
			c.Counters["probe.loopback_feedback_stall_before_stop"]++
			return Pass()
		}
		return v
	}
	if verdict.Class != "" {
		return verdict
	}
	shape := map[string]interface{}{"pipeline": sc.Shape, "stop": sc.Stop}
	if len(leaked) > 0 {
		v := Fail("goroutine-leak", "after %s returned and the system went idle, %d goroutine(s) started by the task are still alive: %v", sc.Stop, len(leaked), leaked)
		v.Shape = shape
		return v
	}
	if sc.Shape == "failnode" || sc.Shape == "failnode2" {
		for _, e := range d.Sinks.Errs {
			if strings.Contains(e, "node failed") {
				c.Counters["probe.node_failed_before_stop"]++
				break
			}
		}
	}
	if sc.Shape == "failnode" || sc.Shape == "failnode2" || sc.Shape == "batch" {
		// a failed task owes its outputs nothing (and what a batch task owes is the subject of C16); it must have terminated (checked above)
		return Pass()
	}
	// ---- conservation ----
	owed := map[[2]int]bool{}
	for _, a := range acks {
		if a.ackedAt < stopStamp {
			owed[[2]int{a.w, a.s}] = true
		}
	}
	type output struct {
		name string
		seen [][2]int
	}
	var outs []output
	ids := func(fields map[string]interface{}) ([2]int, bool) {
		w, ok1 := fields["w"].(int64)
		s, ok2 := fields["s"].(int64)
		if !ok1 {
			w, ok1 = fields["a.w"].(int64)
			s, ok2 = fields["a.s"].(int64)
		}
		return [2]int{int(w), int(s)}, ok1 && ok2
	}
	switch sc.Shape {
	case "influx", "fork":
		o := output{name: "influxDBOut"}
		for _, w := range fi.Writes {
			for _, p := range w.Points {
				id, ok := ids(p.Fields)
				if !ok {
					return Fail("corrupt", "influx write without identity fields: %+v", p)
				}
				o.seen = append(o.seen, id)
			}
		}
		outs = append(outs, o)
	}
	if sc.Shape == "httppost" {
		if posted.bad != "" {
			return Fail("corrupt", "httpPost request: %s", posted.bad)
		}
		outs = append(outs, output{name: "httpPost endpoint", seen: posted.seen})
	}
	switch sc.Shape {
	case "log", "fork", "join", "union":
		o := output{name: "log sink A/0"}
		for _, ob := range d.Sinks.Get("A/0") {
			id, ok := ids(ob.Copy.Fields)
			if !ok {
				return Fail("corrupt", "sink point without identity fields: %+v", ob.Copy)
			}
			o.seen = append(o.seen, id)
		}
		outs = append(outs, o)
	case "loopback":
		o := output{name: "loopback -> task B sink"}
		for _, ob := range d.Sinks.Get("B/0") {
			id, ok := ids(ob.Copy.Fields)
			if !ok {
				return Fail("corrupt", "sink point without identity fields: %+v", ob.Copy)
			}
			o.seen = append(o.seen, id)
		}
		outs = append(outs, o)
	}
	switch sc.Shape {
	case "alert", "fork":
		o := output{name: "alert handler"}
		for _, e := range rec.Events {
			var w, s int
			if _, err := fmt.Sscanf(e.Message, "%d/%d", &w, &s); err != nil {
				return Fail("corrupt", "alert event with unexpected message %q", e.Message)
			}
			o.seen = append(o.seen, [2]int{w, s})
		}
		outs = append(outs, o)
		if sc.AnonTopic {
			o := output{name: "handler on the alert node's anonymous topic"}
			for _, e := range recAnon.Events {
				var w, s int
				if _, err := fmt.Sscanf(e.Message, "%d/%d", &w, &s); err != nil {
					return Fail("corrupt", "alert event with unexpected message %q", e.Message)
				}
				o.seen = append(o.seen, [2]int{w, s})
			}
			outs = append(outs, o)
		}
	}
	if len(owed) == 0 {
		c.Trivial = true
	}
	for _, o := range outs {
		cnt := map[[2]int]int{}
		last := map[int]int{}
		for _, id := range o.seen {
			cnt[id]++
			if cnt[id] > 1 {
				v := Fail("duplicate", "%s received point w=%d s=%d twice", o.name, id[0], id[1])
				v.Shape = shape
				return v
			}
			if prev, ok := last[id[0]]; ok && prev > id[1] {
				v := Fail("reordered", "%s received writer %d's point s=%d after s=%d", o.name, id[0], id[1], prev)
				v.Shape = shape
				return v
			}
			last[id[0]] = id[1]
		}
		var missing [][2]int
		for id := range owed {
			if cnt[id] == 0 {
				missing = append(missing, id)
			}
		}
		if len(missing) > 0 {
			entered := map[[2]int]bool{}
			for _, ob := range d.Sinks.Get("A/in") {
				if id, ok := ids(ob.Copy.Fields); ok {
					entered[id] = true
				}
			}
			var inPipe [][2]int
			for _, id := range missing {
				if entered[id] {
					inPipe = append(inPipe, id)
				}
			}
			cls := "lost-before-task"
			why := "none of them ever entered the task: they were still queued in front of it when it was stopped"
			if len(inPipe) > 0 {
				cls = "lost-in-pipeline"
				why = fmt.Sprintf("%d of them had entered the task's pipeline (seen below from()) and were dropped inside it", len(inPipe))
				missing = inPipe
			}
			sort.Slice(missing, func(i, j int) bool {
				if missing[i][0] != missing[j][0] {
					return missing[i][0] < missing[j][0]
				}
				return missing[i][1] < missing[j][1]
			})
			v := Fail(cls, "%d point(s) acknowledged before the %s request never reached output %q; %s (first: w=%d s=%d; %d owed, %d delivered). node errors: %s",
				len(missing), sc.Stop, o.name, why, missing[0][0], missing[0][1], len(owed), len(o.seen), strings.Join(firstN(d.Sinks.Errs, 3), " | ")+" log: "+d.LogHead(600))
			shape2 := map[string]interface{}{"pipeline": sc.Shape, "stop": sc.Stop, "output": o.name}
			v.Shape = shape2
			return v
		}
	}
	return Pass()
}

// c07Transport stands in for the network below http.DefaultClient: it records the points of each POST, takes its time on
// the virtual clock and gives up, as a real transport does, when the request's context is cancelled.
type c07Transport struct {
	slow func()
	seen [][2]int
	bad  string
}

func (t *c07Transport) RoundTrip(req *http.Request) (*http.Response, error) {
	if !simrt.Active() {
		return nil, errors.New("the simulated process is gone")
	}
	body, _ := io.ReadAll(req.Body)
	req.Body.Close()
	if err := req.Context().Err(); err != nil {
		return nil, err
	}
	t.slow()
	if err := req.Context().Err(); err != nil {
		return nil, err
	}
	var doc struct {
		Series []struct {
			Columns []string        `json:"columns"`
			Values  [][]interface{} `json:"values"`
		} `json:"series"`
	}
	if err := json.Unmarshal(body, &doc); err != nil {
		t.bad = fmt.Sprintf("%v: %s", err, truncateStr(string(body), 200))
	}
	for _, se := range doc.Series {
		wi, si := -1, -1
		for i, c := range se.Columns {
			if c == "w" {
				wi = i
			}
			if c == "s" {
				si = i
			}
		}
		for _, row := range se.Values {
			if wi < 0 || si < 0 || wi >= len(row) || si >= len(row) {
				t.bad = "a posted row without identity fields: " + truncateStr(string(body), 200)
				continue
			}
			w, _ := row[wi].(float64)
			s, _ := row[si].(float64)
			t.seen = append(t.seen, [2]int{int(w), int(s)})
		}
	}
	return &http.Response{StatusCode: 200, Status: "200 OK", Header: http.Header{}, Body: io.NopCloser(strings.NewReader("")), Request: req}, nil
}

func firstN(ss []string, n int) []string {
	if len(ss) > n {
		return ss[:n]
	}
	return ss
}

func init() {
	Register(&Prop{
		ID:  "C07",
		Run: runC07,
		Rule: "case = one of 7 pipeline shapes: a task one of whose branches fails on the first point while a timer-driven stats branch and an influxDBOut branch go on (termination only), or 6 shapes ending in real output nodes (influxDBOut with seeded buffer/flushInterval, alert->topic->bufHandler->recording handler on a named topic and, in half of the cases, also on the node's anonymous topic (closed when the node ends), kapacitorLoopback into a second task, log sink, 3-way fork, self-join) " +
			"an httpPost shape (http.DefaultClient on a recording transport that honours the request context); in half of the Close cases the alert service is closed right after the task master, with whatever its handlers still have queued; a second failing-node shape (combine refusing more than max combinations, in front of a union / a join with a healthy sibling / a window with an output below; termination only); (round 3) two more shapes: a union of two from() nodes fed by different writers (its parents are at different timestamps when the stop arrives), and a batch task (every 500ms/1s, aligned or cron, query latency 0-2.6s; termination only) stopped after 0-4s; in half of all cases a goroutine sits in ExecutingTask.Wait() for the life of the task as the task store's does; " +
			"x 1-3 concurrent HTTP writers (1-30/120 points each) x stop action (StopTask/DeleteTask/TaskMaster.Close) issued after a seeded number of acknowledged writes x slow outputs x one seeded schedule/knob set; " +
			"non-trivial = at least one point was acknowledged before the stop request; distinct = distinct (scenario, interleaving signature) pairs",
		Real:        []string{"services/httpd Handler", "TaskMaster (WritePoints, forkPoint, StopTask/DeleteTask/Close/Drain)", "ExecutingTask.stop, node.start/stop/Wait", "StreamNode, FromNode, EvalNode, WhereNode, JoinNode, LogNode, InfluxDBOutNode + writeBuffer, AlertNode, KapacitorLoopbackNode", "edge package", "services/alert + alert.Topics + bufHandler"},
		Stub:        []string{"InfluxDB client (existing seam influxdb.Client): records writes, seeded virtual latency", "recording alert.Handler", "libflux C stub (never called)", "no sockets"},
		Assumptions: []string{"'accepted before the stop' = HTTP 204 returned before the stop call was invoked (event sequence numbers)", "alert event queue kept at its shipped size: overflow drops are documented behaviour, not loss on stop", "termination is judged under a fair scheduler after the stop request, with a 3M-step budget per blocking call"},
	})
}
