package props

import (
	"fmt"
	"strings"
	"sync"

	"github.com/influxdata/kapacitor"
	"github.com/influxdata/kapacitor/zz_sim/harness"
	"github.com/influxdata/kapacitor/zz_sim/simrt"
)

// C02 — each stream task receives its selected points exactly once, in order.

type c02From struct {
	Measurement string `json:"m"`
	DB          string `json:"db,omitempty"`
	RP          string `json:"rp,omitempty"`
	WhereMin    int    `json:"where_min"` // -1: no where(); else lambda: "v" >= WhereMin
	// WhereKind: 0 the field "v" every point carries; 1 the tag "k" == 'a' and 2 the field "u" >= WhereMin, which only some
	// points carry (a point without the referenced tag or field is not selected).
	WhereKind int `json:"where_kind,omitempty"`
	// Where2Max: a second .where() on the same from(): "v" <= Where2Max (both conditions must hold); -1 = none
	Where2Max int `json:"second_where_max"`
}

type c02Task struct {
	ID      string      `json:"id"`
	DBRPs   [][2]string `json:"dbrps"`
	Froms   []c02From   `json:"froms"`
	Churned bool        `json:"churned"`
	Late    bool        `json:"not_started_until_the_churner_starts_it,omitempty"`
	Script  string      `json:"script"`
}

type c02Point struct {
	M string `json:"m"`
	V int    `json:"v"`
	S int    `json:"s"`
	K string `json:"k,omitempty"` // optional tag
	U int    `json:"u"`           // optional field, -1 = absent
}

// effRP: a write that names no retention policy is a write to the default one.
func effRP(rp string) string {
	if rp == "" {
		return "autogen"
	}
	return rp
}

type c02Write struct {
	DB, RP string
	Points []c02Point
}

type c02Scenario struct {
	Tasks   []c02Task    `json:"tasks"`
	Writers [][]c02Write `json:"writers"`
	Churn   []string     `json:"churn"` // ops: "start:<i>", "stop:<i>", "delete:<i>"
	OneKey  bool         `json:"all_writes_go_to_one_db_rp_measurement,omitempty"`
	Config  string       `json:"config"`
}

var c02DBs = []string{"db0", "db1"}
var c02RPs = []string{"autogen", "rp1"} // "autogen" is the daemon's default-retention-policy
var c02Ms = []string{"m0", "m1", "m2"}

func c02Gen(c *Ctx) *c02Scenario {
	g := c.G
	sc := &c02Scenario{}
	nt := g.Range(1, 4)
	for i := 0; i < nt; i++ {
		t := c02Task{ID: fmt.Sprintf("T%d", i)}
		nd := g.Range(1, 2)
		seen := map[[2]string]bool{}
		for j := 0; j < nd; j++ {
			d := [2]string{g.Pick(c02DBs), g.Pick(c02RPs)}
			if !seen[d] {
				seen[d] = true
				t.DBRPs = append(t.DBRPs, d)
			}
		}
		nf := g.Range(1, 3)
		var sb strings.Builder
		for k := 0; k < nf; k++ {
			f := c02From{WhereMin: -1, Where2Max: -1}
			switch g.Intn(4) {
			case 0:
				f.Measurement = ""
			default:
				f.Measurement = g.Pick(c02Ms)
			}
			if g.Chance(1, 5) {
				f.DB = g.Pick(c02DBs)
			}
			if g.Chance(1, 5) {
				f.RP = g.Pick(c02RPs)
			}
			if g.Chance(1, 4) {
				f.WhereMin = g.Range(1, 8)
				f.WhereKind = []int{0, 0, 1, 2}[g.Intn(4)]
				if g.Chance(1, 3) {
					f.Where2Max = g.Range(2, 9)
				}
			}
			t.Froms = append(t.Froms, f)
			sb.WriteString("stream\n    |from()")
			if f.Measurement != "" {
				fmt.Fprintf(&sb, ".measurement('%s')", f.Measurement)
			}
			if f.DB != "" {
				fmt.Fprintf(&sb, ".database('%s')", f.DB)
			}
			if f.RP != "" {
				fmt.Fprintf(&sb, ".retentionPolicy('%s')", f.RP)
			}
			if f.WhereMin >= 0 {
				switch f.WhereKind {
				case 1:
					sb.WriteString(".where(lambda: \"k\" == 'a')")
				case 2:
					fmt.Fprintf(&sb, ".where(lambda: \"u\" >= %d)", f.WhereMin)
				default:
					fmt.Fprintf(&sb, ".where(lambda: \"v\" >= %d)", f.WhereMin)
				}
				if f.Where2Max >= 0 {
					fmt.Fprintf(&sb, ".where(lambda: \"v\" <= %d)", f.Where2Max)
				}
			}
			fmt.Fprintf(&sb, "\n    |log().prefix('%s/%d')\n", t.ID, k)
		}
		t.Script = sb.String()
		sc.Tasks = append(sc.Tasks, t)
	}
	// churned tasks: the last ones (never all)
	nch := 0
	if !c.FaultFree || g.Bool() {
		nch = g.Intn(len(sc.Tasks))
	}
	for i := len(sc.Tasks) - nch; i < len(sc.Tasks); i++ {
		sc.Tasks[i].Churned = true
		sc.Tasks[i].Late = g.Chance(1, 3) // enabled only once data is flowing
	}
	if nch > 0 {
		nops := g.Range(1, 8)
		for i := 0; i < nops; i++ {
			ti := len(sc.Tasks) - 1 - g.Intn(nch)
			sc.Churn = append(sc.Churn, fmt.Sprintf("%s:%d", []string{"stop", "start", "delete"}[g.Intn(3)], ti))
		}
	}
	nw := g.Range(1, 3)
	lateSub := g.Chance(1, 10)
	// in a quarter of the cases every write goes to one (db, rp, measurement): the routing table sees the same key over and over
	sc.OneKey = g.Chance(1, 4)
	oneDB, oneRP, oneM := g.Pick(c02DBs), g.Pick(c02RPs), g.Pick(c02Ms)
	if lateSub {
		// one case in ten: a task becomes the first subscriber of a key while one writer keeps writing that key
		// (another task on other data is a bystander); whatever is written after it has started is owed to it
		m := oneM
		if g.Chance(1, 3) {
			m = "" // an unfiltered from()
		}
		late := c02Task{ID: "T1", DBRPs: [][2]string{{oneDB, oneRP}}, Froms: []c02From{{Measurement: m, WhereMin: -1, Where2Max: -1}}, Churned: true, Late: true}
		late.Script = "stream\n    |from()"
		if m != "" {
			late.Script += ".measurement('" + m + "')"
		}
		late.Script += "\n    |log().prefix('T1/0')\n"
		otherDB := c02DBs[0]
		if otherDB == oneDB {
			otherDB = c02DBs[1]
		}
		by := c02Task{ID: "T0", DBRPs: [][2]string{{otherDB, oneRP}}, Froms: []c02From{{WhereMin: -1, Where2Max: -1}}, Script: "stream\n    |from()\n    |log().prefix('T0/0')\n"}
		sc.Tasks, sc.Churn, sc.OneKey, nw = []c02Task{by, late}, []string{"start:1"}, true, 1
	}
	maxPts := 12
	if c.Thorough() {
		maxPts = 40
	}
	for w := 0; w < nw; w++ {
		var ws []c02Write
		n := g.Range(1, maxPts)
		seq := 0
		for seq < n {
			wr := c02Write{DB: g.Pick(c02DBs), RP: g.Pick(c02RPs)}
			if g.Chance(1, 5) {
				wr.RP = "" // written without naming a retention policy
			}
			if sc.OneKey {
				wr.DB, wr.RP = oneDB, oneRP
			}
			k := g.Range(1, 3)
			for j := 0; j < k && seq < n; j++ {
				wr.Points = append(wr.Points, c02Point{M: g.Pick(c02Ms), V: g.Intn(10), S: seq, K: []string{"", "a", "b"}[g.Intn(3)], U: g.Intn(11) - 1})
				if sc.OneKey {
					wr.Points[len(wr.Points)-1].M = oneM
				}
				seq++
			}
			ws = append(ws, wr)
		}
		sc.Writers = append(sc.Writers, ws)
	}
	return sc
}

func (f c02From) selects(db, rp string, p c02Point) bool {
	if f.DB != "" && f.DB != db {
		return false
	}
	if f.RP != "" && f.RP != rp {
		return false
	}
	if f.Measurement != "" && f.Measurement != p.M {
		return false
	}
	if f.Where2Max >= 0 && p.V > f.Where2Max {
		return false
	}
	if f.WhereMin >= 0 {
		switch f.WhereKind {
		case 1:
			if p.K != "a" {
				return false
			}
		case 2:
			if p.U < 0 || p.U < f.WhereMin {
				return false
			}
		default:
			if p.V < f.WhereMin {
				return false
			}
		}
	}
	return true
}

func (t c02Task) declares(db, rp string) bool {
	for _, d := range t.DBRPs {
		if d[0] == db && d[1] == rp {
			return true
		}
	}
	return false
}

type c02Ack struct {
	w    int
	wr   c02Write
	ack  bool
	call int64 // stamp before the write request was issued
}

func runC02(c *Ctx) Verdict {
	sc := c02Gen(c)
	c.Scenario = sc
	cfg := c.WorldConfig()
	sc.Config = fmt.Sprintf("%v p=%.2f knobs=%v", cfg.Strategy, cfg.SwitchProb, cfg.Knobs)
	cfg.StarveRole = "c02.go" // starve the harness clients' goroutines? no: starve sinks via node names
	if cfg.Strategy == simrt.StratStarve {
		cfg.StarveRole = []string{"node.go", "task_master.go", "c02.go"}[c.G.Intn(3)]
	}
	cfg.MaxSteps = 3_000_000

	var verdict Verdict
	var acks []c02Ack
	runningSince := map[int]int64{} // churned task -> stamp at which its last StartTask returned, if nothing stopped it afterwards
	var d *harness.Daemon
	res := c.World(cfg, func() {
		var err error
		d, err = harness.NewDaemon(harness.DaemonOpts{})
		if err != nil {
			verdict = Fail("harness/setup", "daemon: %v", err)
			return
		}
		tasks := make([]*kapacitor.Task, len(sc.Tasks))
		for i, t := range sc.Tasks {
			var dbrps []kapacitor.DBRP
			for _, p := range t.DBRPs {
				dbrps = append(dbrps, kapacitor.DBRP{Database: p[0], RetentionPolicy: p[1]})
			}
			kt, err := d.Define(t.ID, t.Script, kapacitor.StreamTask, dbrps)
			if err != nil {
				verdict = Fail("harness/setup", "define %s: %v\n%s", t.ID, err, t.Script)
				return
			}
			tasks[i] = kt
			if t.Late {
				continue
			}
			if _, err := d.TM.StartTask(kt); err != nil {
				verdict = Fail("harness/setup", "start %s: %v", t.ID, err)
				return
			}
		}
		var wg sync.WaitGroup
		var mu sync.Mutex
		for w, ws := range sc.Writers {
			wg.Add(1)
			go func(w int, ws []c02Write) {
				defer wg.Done()
				for _, wr := range ws {
					var sb strings.Builder
					for _, p := range wr.Points {
						tag, fld := "", ""
						if p.K != "" {
							tag = ",k=" + p.K
						}
						if p.U >= 0 {
							fld = fmt.Sprintf(",u=%di", p.U)
						}
						fmt.Fprintf(&sb, "%s,host=h%d%s w=%di,s=%di,v=%di%s %d\n", p.M, w, tag, w, p.S, p.V, fld, 1000000*(p.S+1))
					}
					call := simrt.Stamp()
					code := d.WriteLine(wr.DB, wr.RP, sb.String())
					mu.Lock()
					acks = append(acks, c02Ack{w: w, wr: wr, ack: code == 204, call: call})
					mu.Unlock()
					if code != 204 {
						simrt.Count("obs.write_rejected")
					}
				}
			}(w, ws)
		}
		if len(sc.Churn) > 0 {
			wg.Add(1)
			go func() {
				defer wg.Done()
				running := map[int]bool{}
				for i, t := range sc.Tasks {
					if t.Churned && !t.Late {
						running[i] = true
					}
				}
				for _, op := range sc.Churn {
					var kind string
					var ti int
					parts := strings.SplitN(op, ":", 2)
					kind = parts[0]
					fmt.Sscanf(parts[1], "%d", &ti)
					simrt.Count("fault.task.churn")
					switch kind {
					case "stop":
						done := simrt.Expect("StopTask(churn)", 2_000_000, 0x7fffffffffff)
						d.TM.StopTask(sc.Tasks[ti].ID)
						done()
						running[ti] = false
						delete(runningSince, ti)
					case "delete":
						done := simrt.Expect("DeleteTask(churn)", 2_000_000, 0x7fffffffffff)
						d.TM.DeleteTask(sc.Tasks[ti].ID)
						done()
						running[ti] = false
						delete(runningSince, ti)
					case "start":
						if !running[ti] {
							t := sc.Tasks[ti]
							var dbrps []kapacitor.DBRP
							for _, p := range t.DBRPs {
								dbrps = append(dbrps, kapacitor.DBRP{Database: p[0], RetentionPolicy: p[1]})
							}
							kt, err := d.Define(t.ID, t.Script, kapacitor.StreamTask, dbrps)
							if err == nil {
								if _, err := d.TM.StartTask(kt); err == nil {
									running[ti] = true
									runningSince[ti] = simrt.Stamp()
								}
							}
						}
					}
				}
			}()
		}
		wg.Wait()
		simrt.Fair()
		simrt.WaitIdle()
	})
	if v, bad := WorldVerdict(res, false); bad {
		return v
	}
	if verdict.Class != "" {
		return verdict
	}
	// ---- oracle (history check) ----
	interesting := false
	for ti, t := range sc.Tasks {
		for k, f := range t.Froms {
			key := fmt.Sprintf("%s/%d", t.ID, k)
			obs := d.Sinks.Get(key)
			// observed per writer
			got := map[int][]int{}
			for _, o := range obs {
				w, ok1 := o.Copy.Fields["w"].(int64)
				s, ok2 := o.Copy.Fields["s"].(int64)
				if !ok1 || !ok2 {
					return Fail("corrupt", "sink %s saw a point without its identity fields: %+v", key, o.Copy)
				}
				if !t.declares(o.Copy.DB, o.Copy.RP) {
					v := Fail("undeclared-dbrp", "task %s (dbrps %v) observed point w=%d s=%d of undeclared %s.%s", t.ID, t.DBRPs, w, s, o.Copy.DB, o.Copy.RP)
					return v
				}
				got[int(w)] = append(got[int(w)], int(s))
			}
			want := map[int][]int{}
			for _, a := range acks {
				if !a.ack || !t.declares(a.wr.DB, effRP(a.wr.RP)) {
					continue
				}
				for _, p := range a.wr.Points {
					if f.selects(a.wr.DB, effRP(a.wr.RP), p) {
						want[a.w] = append(want[a.w], p.S)
					}
				}
			}
			for w := range sc.Writers {
				g, e := got[w], want[w]
				if len(e) > 0 {
					interesting = true
				}
				if t.Churned {
					// safety: observed is a duplicate-free subsequence of expected
					if cls, msg := c02Subseq(g, e); cls != "" {
						v := Fail(cls, "churned task %s from#%d writer %d: %s; got %v want-subsequence-of %v", t.ID, k, w, msg, g, e)
						v.Shape = c02Shape(sc, ti)
						return v
					}
					// ... and a task that was started (again) and not stopped afterwards is a running task: what was written
					// after its StartTask had returned is owed to it
					if since, ok := runningSince[ti]; ok {
						seen := map[int]bool{}
						for _, s := range g {
							seen[s] = true
						}
						for _, a := range acks {
							if a.w != w || !a.ack || a.call <= since || !t.declares(a.wr.DB, effRP(a.wr.RP)) {
								continue
							}
							for _, p := range a.wr.Points {
								if f.selects(a.wr.DB, effRP(a.wr.RP), p) && !seen[p.S] {
									v := Fail("lost", "task %s was started again while data was flowing and not stopped afterwards; from#%d (%+v) never received writer %d's point s=%d, written after StartTask had returned (got %v)", t.ID, k, f, w, p.S, g)
									v.Shape = c02Shape(sc, ti)
									return v
								}
							}
						}
					}
					continue
				}
				if !intsEqual(g, e) {
					cls, msg := c02Diff(g, e)
					v := Fail(cls, "task %s from#%d (%+v) writer %d: %s; got %v want %v", t.ID, k, f, w, msg, g, e)
					v.Shape = c02Shape(sc, ti)
					return v
				}
			}
		}
	}
	if !interesting {
		c.Trivial = true
	}
	return Pass()
}

func c02Shape(sc *c02Scenario, ti int) map[string]interface{} {
	t := sc.Tasks[ti]
	filtered, unfiltered := 0, 0
	for _, f := range t.Froms {
		if f.Measurement == "" {
			unfiltered++
		} else {
			filtered++
		}
	}
	return map[string]interface{}{"froms_with_measurement": filtered, "froms_without_measurement": unfiltered, "churned": t.Churned}
}

func intsEqual(a, b []int) bool {
	if len(a) != len(b) {
		return false
	}
	for i := range a {
		if a[i] != b[i] {
			return false
		}
	}
	return true
}

// c02Diff classifies a mismatch between the observed and expected per-writer sequences.
func c02Diff(got, want []int) (string, string) {
	seen := map[int]int{}
	for _, s := range got {
		seen[s]++
	}
	wantSet := map[int]bool{}
	for _, s := range want {
		wantSet[s] = true
	}
	for _, s := range got {
		if !wantSet[s] {
			return "foreign", fmt.Sprintf("point s=%d was delivered but is not selected by this node", s)
		}
	}
	for _, s := range got {
		if seen[s] > 1 {
			return "duplicate", fmt.Sprintf("point s=%d delivered %d times", s, seen[s])
		}
	}
	for _, s := range want {
		if seen[s] == 0 {
			return "lost", fmt.Sprintf("acknowledged point s=%d never reached the node", s)
		}
	}
	return "reordered", "same points, different order"
}

func c02Subseq(got, want []int) (string, string) {
	j := 0
	seen := map[int]bool{}
	for _, s := range got {
		if seen[s] {
			return "duplicate", fmt.Sprintf("point s=%d delivered twice", s)
		}
		seen[s] = true
		for j < len(want) && want[j] != s {
			j++
		}
		if j == len(want) {
			inWant := false
			for _, x := range want {
				if x == s {
					inWant = true
				}
			}
			if !inWant {
				return "foreign", fmt.Sprintf("point s=%d not selected by this node", s)
			}
			return "reordered", fmt.Sprintf("point s=%d out of order", s)
		}
		j++
	}
	return "", ""
}

func init() {
	Register(&Prop{
		ID:  "C02",
		Run: runC02,
		Rule: "case = seeded set of 1-4 stream tasks (1-2 dbrps, 1-3 from() nodes with measurement/database/retentionPolicy/where drawn from a 2x2x3 universe) " +
			"(where() over a field every point carries - in a third of these cases followed by a second .where() on the same from() -, or over a tag / a field only some points carry; a fifth of the writes name no retention policy and go to the daemon's default one) " +
			"x 1-3 concurrent HTTP writers (in a quarter of the cases all writing one db/rp/measurement) x optional start/stop/delete churn (churned tasks may be enabled only once data is flowing; one that was started and not stopped again is owed everything written after its StartTask returned; one case in ten is a task that becomes the first subscriber of the one key being written) of other tasks x one seeded schedule and knob set; " +
			"non-trivial = at least one from() node was owed at least one acknowledged point; distinct = distinct (scenario, interleaving signature) pairs",
		Real:        []string{"services/httpd Handler (write endpoint)", "TaskMaster (WritePoints, forkPoint, newFork/delFork, StartTask/StopTask/DeleteTask)", "ExecutingTask, StreamNode, FromNode, LogNode", "edge (channelEdge, consumers)", "tick parser/evaluator, pipeline", "services/alert (opened, idle)", "services/diagnostic"},
		Stub:        []string{"libflux (C stub, never called)", "storage service wrapper over real bbolt", "no sockets: requests go to Handler.ServeHTTP in-process"},
		Assumptions: []string{"schedules explored are sequentially consistent interleavings at synchronisation operations (DESIGN 5)", "points written while a task is being started/stopped are only checked for safety on that task, as the property speaks about running tasks"},
	})
}
