package props

import (
	"bufio"
	"encoding/binary"
	"encoding/json"
	"fmt"
	"io"
	"os"
	"runtime"
	"strings"
	"time"

	"github.com/influxdata/kapacitor"
	"github.com/influxdata/kapacitor/pipeline"
	"github.com/influxdata/kapacitor/tick"
	"github.com/influxdata/kapacitor/tick/ast"
	"github.com/influxdata/kapacitor/udf"
	"github.com/influxdata/kapacitor/udf/agent"
	"github.com/influxdata/kapacitor/zz_sim/harness"
	"github.com/influxdata/kapacitor/zz_sim/simrt"
	"google.golang.org/protobuf/proto"
)

// C05 — no script, data point or peer message can crash the daemon or kill a task.
// Claimed for the facets that involve goroutines, peers and running tasks (DESIGN.md 7 C05).

type c05Scenario struct {
	Mode   string   `json:"mode"`               // define | json | vars | runtime | peer
	Doc    string   `json:"document,omitempty"` // vars mode: the request body; json mode: the mutation applied to the pipeline JSON
	Script string   `json:"script"`
	Lambda string   `json:"lambda,omitempty"`
	Mut    string   `json:"mutation,omitempty"`
	Node   string   `json:"node,omitempty"`
	Bad    string   `json:"bad_point,omitempty"`
	Peer   string   `json:"peer_behaviour,omitempty"`
	Lines  []string `json:"lines,omitempty"`
	Config string   `json:"config"`
}

var c05Corpus = []string{
	"stream\n    |from()\n        .measurement('cpu')\n        .where(lambda: \"host\" == 'a' AND \"v\" > 1.0)\n        .groupBy('host')\n    |window()\n        .period(10s)\n        .every(5s)\n    |mean('v')\n        .as('m')\n    |alert()\n        .id('{{ .Name }}/{{ index .Tags \"host\" }}')\n        .message('{{ .ID }} is {{ .Level }}')\n        .warn(lambda: \"m\" > 10)\n        .crit(lambda: \"m\" > 20)\n        .stateChangesOnly()\n        .topic('t')\n",
	"var period = 10s\nvar data = stream\n    |from()\n        .measurement('m')\n    |eval(lambda: \"a\" / \"b\", lambda: strSubstring(\"s\", 0, 1))\n        .as('q', 'c')\n        .keep()\ndata\n    |derivative('q')\n        .unit(1s)\n        .nonNegative()\n    |log()\ndata\n    |stateCount(lambda: \"q\" > 1)\n    |httpOut('x')\n",
	"// comment\nvar a = stream|from().measurement('a')\nvar b = stream|from().measurement('b')\na|join(b).as('a','b').tolerance(1s)|eval(lambda: \"a.v\" + \"b.v\").as('s')|influxDBOut().database('db').retentionPolicy('rp')\n",
	"stream|from().measurement(/^cpu.*/).groupBy(*)|sample(3)|shift(-1m)|default().field('x', 1.0).tag('t', 'v')|delete().field('y')|flatten().on('t')|log().prefix('p')\n",
	"var x = 5\nvar s = 'str' + 'ing'\nvar d = 1h + 2m\nvar r = /re[0-9]+/\nvar l = lambda: (\"v\" > x) OR (\"h\" =~ r) AND !(\"b\" == TRUE)\nstream|from().measurement('m').where(l)|changeDetect('v')|stateDuration(lambda: \"v\" != 0).unit(1s)|log()\n",
	// unary operators on operands they do not apply to, inside binary expressions that are evaluated when the task is defined
	"var a = 'x' + -'y'\nvar b = 1s + -'u'\nvar c = 'a' + !'t'\nvar d = -TRUE\nvar e = 2 * -'z'\nstream|from().measurement('m').where(lambda: \"s\" + -\"s\" == 'x')|log()\n",
	"batch\n    |query('SELECT mean(v) FROM \"db\".\"rp\".\"m\"')\n        .period(10s)\n        .every(5s)\n        .groupBy(time(1s), 'host')\n        .fill(0)\n    |top(3, 'mean', 'host')\n    |log()\n",
}

// node chains whose numeric properties are filled with boundary values ({i} integer, {d} duration, {f} float): whatever the
// node API accepts must then survive data
var c05Params = []string{
	"|alert().crit(lambda: \"v\" > 5).history({i}).topic('t5')",
	"|alert().crit(lambda: \"v\" > 5).history({i}).flapping(0.1, 0.9).topic('t5')",
	"|alert().crit(lambda: \"v\" > 5).stateChangesOnly({d}).topic('t5')",
	"|sample({i})", "|sample({d})",
	"|window().period({d}).every({d})", "|window().periodCount({i}).everyCount({i})", "|window().period(2s).every({d}).align()", "|window().period({d}).every(1s).fillPeriod()",
	"|derivative('a').unit({d})", "|stateDuration(lambda: \"v\" > 5).unit({d})", "|elapsed('a', {d})", "|shift({d})",
	"|window().period(2s).every(2s)|top({i}, 'a')", "|window().period(2s).every(2s)|bottom({i}, 'a')", "|window().period(2s).every(2s)|percentile('a', {f})",
	"|window().period(2s).every(2s)|movingAverage('a', {i})", "|window().period(3s).every(3s)|holtWinters('a', {i}, {i}, {d})", "|window().period(3s).every(3s)|holtWintersWithFit('a', {i}, {i}, {d})",
	"|window().period(2s).every(2s)|sample({i})", "|window().period(2s).every(2s)|elapsed('a', {d})", "|window().period(2s).every(2s)|difference('a')|derivative('difference').unit({d})",
	"|barrier().idle({d})", "|barrier().period({d})", "|stats({d})", "|deadman({f}, {d})",
	"|combine(lambda: TRUE, lambda: TRUE).as('x', 'y').max({i})", "|combine(lambda: TRUE, lambda: TRUE).as('x', 'y').tolerance({d})",
	"|flatten().on('t').tolerance({d})", "|default().tag('t', 'x')|flatten().on('t').tolerance({d})",
	"|influxDBOut().database('db').retentionPolicy('rp').buffer({i})", "|influxDBOut().database('db').retentionPolicy('rp').flushInterval({d})",
	"|eval(lambda: \"a\" + 1).as('r').keep('nope')", "|groupBy('host')|window().period({d}).every({d})", "|window().period(2s).every(2s)|mean('a')|window().periodCount({i})",
	"|stateCount(lambda: \"v\" > 5)|window().everyCount({i}).periodCount(2)", "|changeDetect('a')|sample({i})",
	// (round 3, second batch) predicates that are not boolean, empty names, degenerate time handling
	"|where(lambda: 1)", "|where(lambda: \"s\")", "|stateCount(lambda: \"a\")", "|stateDuration(lambda: \"f\").unit({d})", "|alert().crit(lambda: \"a\").topic('t5')", "|alert().crit(lambda: \"v\" > 5).id('').topic('t5')",
	"|alert().crit(lambda: \"v\" > 5).flapping({f}, {f}).history({i}).topic('t5')", "|alert().crit(lambda: \"v\" > 5).idField('').levelField('').durationField('').topic('t5')",
	"|eval(lambda: \"a\" / {i}).as('r')", "|eval(lambda: \"f\" / {f}).as('r')|where(lambda: \"r\" > 0)", "|eval(lambda: {d} / \"a\").as('r')", "|eval(lambda: pow(\"f\", {f})).as('r')|derivative('r').unit({d})",
	"|derivative('a').as('')", "|flatten().on()", "|flatten().on('host').delimiter('')", "|changeDetect()", "|default().field('', 1).tag('', 'x')", "|delete().field('').tag('')",
	"|shift({d})|window().period(2s).every(2s)", "|window().period(2s).every(2s)|shift({d})|mean('a')", "|groupBy('host')|window().period(2s).every(2s).fillPeriod()|count('a')|shift({d})",
	"|window().period(2s).every(2s)|percentile('s', {f})", "|window().period(2s).every(2s)|mean('s')", "|window().period(2s).every(2s)|sum('nope')|eval(lambda: \"sum\" / 0).as('r')",
	"|window().period(2s).every(2s)|distinct('f')|cumulativeSum('distinct')", "|window().period(2s).every(2s)|difference('s')", "|window().period(2s).every(2s)|stddev('a')|derivative('stddev').unit({d})",
	"|httpOut('')", "|log().level('nonsense')", "|kapacitorLoopback().database('').retentionPolicy('')", "|influxDBOut().database('').retentionPolicy('').precision('x')",
	"|union()", "|window().period(2s).every(2s)|join().as()", "|combine(lambda: TRUE).as('x')", "|combine(lambda: TRUE, lambda: TRUE).as('x', 'y').delimiter('')",
	"|barrier().idle({d}).period({d})", "|barrier().idle(1s).delete(TRUE)|window().periodCount({i}).everyCount(1)",
}

var c05Lambdas = []string{
	"\"a\" + \"b\" > 0", "\"a\" * \"b\" != 7", "(\"a\" - \"b\") / 3 >= 0", "\"s\" + -\"s\" == 'x'", "\"a\" + -\"s\" > 0", "!\"s\" == TRUE OR \"s\" + !\"s\" == 'x'",
	"\"a\" / \"b\" > 0", "\"a\" % \"b\" == 0", "strSubstring(\"s\", 2, 1) == 'x'", "strSubstring(\"s\", 0, 100) == 'x'", "\"v\" > 5",
	"int(\"f\") / \"b\" > 1", "strLength(\"s\") / \"b\" > 1", "duration(\"a\", 1s) / \"b\" > 1s", "abs(\"a\") % \"b\" == 1", "strIndex(\"s\", 'z') % \"b\" == 0",
	"strSubstring(\"s\", 0, 60) == 'x'", "strSubstring(\"s\", 30, 45) =~ /x/", "strLength(\"s\") > 3 AND strSubstring(\"s\", 1, strLength(\"s\")) != ''",
	"strSubstring(\"s\", 0, 1, 2, 3) == 'x'", "abs(\"a\", 1, 2, 3, 4, 5) > 0", "if(\"a\" > 1, 1, 2, 3, 4, 5, 6) > 0",
	"\"missing\" > 1", "regexReplace(/a/, \"s\", 'b') == 'x'", "\"a\" * 9223372036854775807 > 0", "float(\"s\") > 1.0", "sigma(\"f\") > 1.0 OR \"a\" / \"b\" == 1",
}

func c05Gen(c *Ctx) *c05Scenario {
	g := c.G
	sc := &c05Scenario{Mode: []string{"define", "define", "runtime", "runtime", "runtime", "peer", "json", "vars"}[g.Intn(8)]}
	switch sc.Mode {
	case "json":
		// a valid script; its pipeline is serialised to JSON, the JSON is mutated (runC05) and offered to Pipeline.Unmarshal
		sc.Script = c05Corpus[g.Intn(len(c05Corpus))]
		sc.Doc = fmt.Sprintf("%d:%d:%d", g.Intn(8), g.Intn(1000), g.Intn(12))
	case "vars":
		sc.Script = "var x = 1\nvar l = ['a', 'b']\nvar d = 1s\nvar fl = 1.5\nvar s = 'str'\nvar f = lambda: \"v\" > x AND \"w\" < fl AND \"h\" != s AND \"t\" > d\nstream\n    |from()\n        .measurement('m')\n        .groupBy(l)\n    |where(f)\n    |window()\n        .period(d)\n        .every(d)\n    |log()\n"
		docs := []string{
			`{"x":{"type":"int","value":2}}`, `{"x":{"type":"int","value":"2"}}`, `{"x":{"type":5,"value":2}}`, `{"x":{"value":2}}`, `{"x":5}`, `{"x":null}`,
			`{"l":{"type":"list","value":[{"type":"string","value":"h"}]}}`, `{"l":{"type":"list","value":[{"type":"int","value":1}]}}`, `{"l":{"type":"list","value":[{"type":"star","value":""}]}}`, `{"l":{"type":"list","value":[{"type":5,"value":1}]}}`, `{"l":{"type":"list","value":[{"value":1}]}}`,
			`{"l":{"type":"list","value":[{"type":"int"}]}}`, `{"l":{"type":"list","value":[1,2]}}`, `{"l":{"type":"list","value":{"type":"int","value":1}}}`,
			`{"l":{"type":"list","value":[{"type":null,"value":1}]}}`, `{"l":{"type":"list","value":[{"type":"list","value":[{"type":"star","value":""}]}]}}`,
			`{"d":{"type":"duration","value":true}}`, `{"d":{"type":"duration","value":"1x"}}`, `{"d":{"type":"duration","value":9223372036854775808}}`, `{"d":{"type":"duration","value":1.5}}`,
			`{"f":{"type":"lambda","value":"\"v\" >"}}`, `{"f":{"type":"lambda","value":5}}`, `{"f":{"type":"lambda","value":"abs(1,2,3,4,5,6) > 0"}}`, `{"f":{"type":"regex","value":"("}}`,
			`{"x":{"type":"float","value":"NaN"}}`, `{"x":{"type":"bool","value":"yes"}}`, `{"x":{"type":"star","value":5}}`, `{"x":{"type":"string","value":5}}`, `{"":{"type":"int","value":1}}`,
			`[]`, `"vars"`, `{"x":{"type":"int","value":1e999}}`,
		}
		sc.Doc = docs[g.Intn(len(docs))]
	case "define":
		src := c05Corpus[g.Intn(len(c05Corpus))]
		b := []byte(src)
		nm := g.Range(1, 3)
		var muts []string
		for i := 0; i < nm && len(b) > 0; i++ {
			pos := g.Intn(len(b))
			switch g.Intn(9) {
			case 8: // more arguments than any function or method takes
				if i := strings.IndexByte(string(b[pos:]), '('); i >= 0 {
					at := pos + i + 1
					ins := strings.Repeat([]string{"1, ", "\"v\", ", "1s, ", "'s', "}[g.Intn(4)], g.Range(4, 7))
					b = append(append(append([]byte(nil), b[:at]...), ins...), b[at:]...)
					muts = append(muts, fmt.Sprintf("manyargs@%d", at))
				}
			case 0: // truncate
				b = b[:pos]
				muts = append(muts, fmt.Sprintf("truncate@%d", pos))
			case 1: // delete a run
				end := pos + g.Range(1, 6)
				if end > len(b) {
					end = len(b)
				}
				b = append(append([]byte(nil), b[:pos]...), b[end:]...)
				muts = append(muts, fmt.Sprintf("delete@%d-%d", pos, end))
			case 2: // duplicate a run
				end := pos + g.Range(1, 12)
				if end > len(b) {
					end = len(b)
				}
				b = append(append(append([]byte(nil), b[:end]...), b[pos:end]...), b[end:]...)
				muts = append(muts, fmt.Sprintf("dup@%d-%d", pos, end))
			case 3: // multi-byte rune after a slash
				ins := []string{"/é", "/☃", "/\xff", "//\n", "/* */", "//\n/", "// c\n/ x\n", "//\n/\n//\n", "\n//\n/"}[g.Intn(9)]
				b = append(append(append([]byte(nil), b[:pos]...), ins...), b[pos:]...)
				muts = append(muts, fmt.Sprintf("insert %q@%d", ins, pos))
			case 4: // property used without parentheses / stray tokens
				ins := []string{".period", "|", ".", "lambda:", "'", "\"", "(", ")", "|from", "@", "{{", "var ", "=", "1s1", "0x", "1e", "'''"}[g.Intn(17)]
				b = append(append(append([]byte(nil), b[:pos]...), ins...), b[pos:]...)
				muts = append(muts, fmt.Sprintf("insert %q@%d", ins, pos))
			case 5: // random byte
				b[pos] = byte(g.Intn(256))
				muts = append(muts, fmt.Sprintf("byte@%d", pos))
			case 6: // swap two halves
				b = append(append([]byte(nil), b[pos:]...), b[:pos]...)
				muts = append(muts, fmt.Sprintf("rotate@%d", pos))
			default: // remove all closing parens from pos on
				b = []byte(string(b[:pos]) + strings.ReplaceAll(string(b[pos:]), ")", ""))
				muts = append(muts, fmt.Sprintf("noparen@%d", pos))
			}
		}
		sc.Script = string(b)
		sc.Mut = strings.Join(muts, ", ")
	case "runtime":
		sc.Lambda = c05Lambdas[g.Intn(len(c05Lambdas))]
		sc.Node = []string{"where", "alert", "stateCount", "from", "eval", "stateDuration", "derivative", "eval+where", "params", "params", "params", "params"}[g.Intn(12)]
		switch sc.Node {
		case "params":
			chain := c05Params[g.Intn(len(c05Params))]
			for strings.Contains(chain, "{i}") {
				chain = strings.Replace(chain, "{i}", []string{"0", "-1", "1", "-9223372036854775808", "9223372036854775807", "2"}[g.Intn(6)], 1)
			}
			for strings.Contains(chain, "{d}") {
				chain = strings.Replace(chain, "{d}", []string{"0s", "-1s", "1ns", "-1ns", "1s", "2562047h"}[g.Intn(6)], 1)
			}
			for strings.Contains(chain, "{f}") {
				chain = strings.Replace(chain, "{f}", []string{"0.0", "-1.0", "100.0", "100.5", "50.0", "179769313486231570000000000000000000000000000000000000000000000000000000000000000000000000000000000000000000000000000000000000000000000000000000000000000000000000000000000000000000000000000000000000000000000000000000000000000000000000000000000000000000000000000000000000000000000000000000000000000.0"}[g.Intn(6)], 1)
			}
			sc.Lambda = chain
			sc.Script = "stream\n    |from().measurement('m')\n    " + chain + "\n    |log().prefix('A')\n"
		case "where":
			sc.Script = fmt.Sprintf("stream\n    |from().measurement('m')\n    |where(lambda: %s)\n    |log().prefix('A')\n", sc.Lambda)
		case "alert":
			sc.Script = fmt.Sprintf("stream\n    |from().measurement('m')\n    |alert().crit(lambda: %s).topic('t5')\n    |log().prefix('A')\n", sc.Lambda)
		case "stateCount":
			sc.Script = fmt.Sprintf("stream\n    |from().measurement('m')\n    |stateCount(lambda: %s)\n    |log().prefix('A')\n", sc.Lambda)
		case "stateDuration":
			sc.Script = fmt.Sprintf("stream\n    |from().measurement('m')\n    |stateDuration(lambda: %s)\n    |log().prefix('A')\n", sc.Lambda)
		case "from":
			sc.Script = fmt.Sprintf("stream\n    |from().measurement('m').where(lambda: %s)\n    |log().prefix('A')\n", sc.Lambda)
		case "eval":
			sc.Script = fmt.Sprintf("stream\n    |from().measurement('m')\n    |eval(lambda: %s).as('r').keep()\n    |log().prefix('A')\n", sc.Lambda)
		case "derivative":
			sc.Script = "stream\n    |from().measurement('m')\n    |derivative('a').unit(1s)\n    |log().prefix('A')\n"
		default:
			sc.Script = fmt.Sprintf("stream\n    |from().measurement('m')\n    |eval(lambda: \"a\" - \"a\").as('b').keep()\n    |where(lambda: %s)\n    |log().prefix('A')\n", sc.Lambda)
		}
		sc.Bad = []string{"a=1.5,b=2.5", "b=0i", "a=-9223372036854775808i,b=-1i", "s=\"\"", "a=\"str\",b=\"str\"", "f=0,b=0i", "b=0", "a=1i", "s=\"" + strings.Repeat("日", 40) + "\"", "s=\"" + strings.Repeat("é", 33) + "x\""}[g.Intn(10)]
		if strings.HasPrefix(sc.Lambda, "\"a\" + ") || strings.HasPrefix(sc.Lambda, "\"a\" * ") || strings.HasPrefix(sc.Lambda, "(\"a\" - ") {
			// two dynamic operands: a point in which both have another (valid) type
			sc.Bad = []string{"a=1.5,b=2.5", "a=1.5,b=2.5", "a=\"x\",b=\"y\"", "a=1.5"}[g.Intn(4)]
		}
		good := "m a=6i,b=3i,f=2.5,s=\"abcdef\",v=7.0"
		sc.Lines = []string{good + " 1000000000", "m " + c05Bad(sc.Bad) + " 2000000000", good + " 3000000000", "m " + c05Bad(sc.Bad) + " 3000000000", good + " 4000000000"}
		if sc.Node == "params" {
			sc.Bad = ""
			sc.Lines = nil
			for i := 1; i <= 8; i++ {
				sc.Lines = append(sc.Lines, fmt.Sprintf("m,host=h%d a=%di,b=3i,f=2.5,s=\"abcdef\",v=%d.0 %d", i%2, i, 3+i, i*1000000000))
			}
		}
	default:
		sc.Peer = []string{"echo", "garbage", "wrongtype", "oversize", "halfframe", "empty", "end-without-begin", "close-after-init", "close-after-info", "silent", "duration-field", "begin-huge"}[g.Intn(12)]
		sc.Script = "stream\n    |from().measurement('m')\n    @echo()\n    |log().prefix('A')\n"
		if sc.Peer == "duration-field" {
			sc.Script = "stream\n    |from().measurement('m')\n    |eval(lambda: 1s).as('d').keep()\n    @echo()\n    |log().prefix('A')\n"
		}
		good := "m a=6i,b=3i,f=2.5,s=\"abcdef\",v=7.0"
		for i := 1; i <= 4; i++ {
			sc.Lines = append(sc.Lines, fmt.Sprintf("%s %d", good, i*1000000000))
		}
	}
	return sc
}

func c05Bad(kind string) string {
	base := map[string]string{"a": "6i", "b": "3i", "f": "2.5", "s": "\"abcdef\"", "v": "7.0"}
	for _, kv := range strings.Split(kind, ",") {
		p := strings.SplitN(kv, "=", 2)
		base[p[0]] = p[1]
	}
	var ss []string
	for _, k := range []string{"a", "b", "f", "s", "v"} {
		ss = append(ss, k+"="+base[k])
	}
	return strings.Join(ss, ",")
}

// ---- a UDF service on the existing seam: the real UDFSocket + udf.Server over simulated pipes ----

type c05UDF struct {
	peer    string
	timeout time.Duration
	socks   []*c05Socket
}

func (u *c05UDF) List() []string { return []string{"echo"} }
func (u *c05UDF) Info(name string) (udf.Info, bool) {
	return udf.Info{Wants: agent.EdgeType_STREAM, Provides: agent.EdgeType_STREAM, Options: map[string]*agent.OptionInfo{}}, name == "echo"
}
func (u *c05UDF) Create(name, taskID, nodeID string, d udf.Diagnostic, abortCallback func()) (udf.Interface, error) {
	s := &c05Socket{peer: u.peer}
	u.socks = append(u.socks, s)
	return kapacitor.NewUDFSocket(taskID, nodeID, s, d, u.timeout, abortCallback), nil
}

type c05Socket struct {
	peer     string
	toAgent  *harness.SimPipe
	toServer *harness.SimPipe
}

func (s *c05Socket) Open() error {
	s.toAgent = &harness.SimPipe{Name: "toagent", Fragment: true}
	s.toServer = &harness.SimPipe{Name: "toserver", Fragment: true}
	if s.peer == "echo" || s.peer == "duration-field" {
		a := agent.New(harness.ReadSide{P: s.toAgent}, s.toServer)
		a.Handler = &echoHandler{a: a}
		if err := a.Start(); err != nil {
			return err
		}
		go a.Wait()
		return nil
	}
	go s.hostile()
	return nil
}
func (s *c05Socket) Close() error {
	s.toAgent.Close()
	s.toServer.Close()
	s.toAgent.CloseRead()
	return nil
}
func (s *c05Socket) In() io.WriteCloser { return s.toAgent }
func (s *c05Socket) Out() io.Reader     { return s.toServer }

// hostile plays a misbehaving UDF process.
func (s *c05Socket) hostile() {
	in := bufio.NewReader(harness.ReadSide{P: s.toAgent})
	var buf []byte
	write := func(m proto.Message) { agent.WriteMessage(m, s.toServer) }
	n := 0
	for {
		req := &agent.Request{}
		if err := agent.ReadMessage(&buf, in, req); err != nil {
			s.toServer.Close()
			return
		}
		n++
		_, isInfo := req.Message.(*agent.Request_Info)
		_, isInit := req.Message.(*agent.Request_Init)
		ka, isKA := req.Message.(*agent.Request_Keepalive)
		info := &agent.Response{Message: &agent.Response_Info{Info: &agent.InfoResponse{Wants: agent.EdgeType_STREAM, Provides: agent.EdgeType_STREAM}}}
		initOK := &agent.Response{Message: &agent.Response_Init{Init: &agent.InitResponse{Success: true}}}
		switch s.peer {
		case "close-after-info":
			if isInfo {
				write(info)
				s.toServer.Close()
				return
			}
		case "silent":
			continue
		}
		// behave during the handshake, misbehave on the first data message or keepalive
		if isInfo {
			write(info)
			continue
		}
		if isInit {
			write(initOK)
			if s.peer == "close-after-init" {
				s.toServer.Close()
				return
			}
			continue
		}
		if isKA && s.peer != "garbage" {
			write(&agent.Response{Message: &agent.Response_Keepalive{Keepalive: &agent.KeepaliveResponse{Time: ka.Keepalive.Time}}})
			continue
		}
		switch s.peer {
		case "garbage":
			g := make([]byte, 1+simrt.Choose(40))
			for i := range g {
				g[i] = byte(simrt.Choose(256))
			}
			s.toServer.Write(g)
		case "wrongtype":
			write(initOK)
			write(info)
			write(&agent.Response{Message: &agent.Response_Restore{Restore: &agent.RestoreResponse{Success: true}}})
			write(&agent.Response{Message: &agent.Response_Snapshot{Snapshot: &agent.SnapshotResponse{}}})
		case "oversize":
			v := make([]byte, binary.MaxVarintLen64)
			k := binary.PutUvarint(v, uint64(1)<<[]uint{31, 40, 62}[simrt.Choose(3)])
			s.toServer.Write(v[:k])
			s.toServer.Write([]byte("abc"))
		case "halfframe":
			v := make([]byte, binary.MaxVarintLen64)
			k := binary.PutUvarint(v, 100)
			s.toServer.Write(v[:k])
			s.toServer.Write([]byte("0123456789"))
			s.toServer.Close()
			return
		case "begin-huge":
			write(&agent.Response{Message: &agent.Response_Begin{Begin: &agent.BeginBatch{Name: "m", Size: []int64{1 << 33, 1 << 40, 1 << 62, -1, -1 << 40, -9223372036854775808}[simrt.Choose(6)]}}})
			write(&agent.Response{Message: &agent.Response_End{End: &agent.EndBatch{Name: "m"}}})
		case "empty":
			write(&agent.Response{})
		case "end-without-begin":
			write(&agent.Response{Message: &agent.Response_End{End: &agent.EndBatch{Name: "m"}}})
			write(&agent.Response{Message: &agent.Response_Point{}})
			write(&agent.Response{Message: &agent.Response_Begin{}})
		}
	}
}

// c05MutateJSON applies one textual mutation to a serialised pipeline.
func c05MutateJSON(doc string, op, where, what int) string {
	types := []string{"nope", "", "lambda", "binary", "func", "reference", "stream", "where", "number", "list", "program", "comment"}
	occ := func(needle string) []int {
		var at []int
		for i := 0; ; {
			j := strings.Index(doc[i:], needle)
			if j < 0 {
				return at
			}
			at = append(at, i+j)
			i += j + len(needle)
		}
	}
	switch op {
	case 0, 1, 2: // give a node another (or an unknown) type
		at := occ(`"typeOf":"`)
		if len(at) == 0 {
			return doc
		}
		i := at[where%len(at)] + len(`"typeOf":"`)
		j := i + strings.IndexByte(doc[i:], '"')
		return doc[:i] + types[what%len(types)] + doc[j:]
	case 3: // a value of another JSON kind
		at := occ(`":`)
		if len(at) == 0 {
			return doc
		}
		i := at[where%len(at)] + 2
		j := i
		depth := 0
		inStr := false
		for ; j < len(doc); j++ {
			ch := doc[j]
			if inStr {
				if ch == '\\' {
					j++
				} else if ch == '"' {
					inStr = false
				}
				continue
			}
			if ch == '"' {
				inStr = true
			} else if ch == '{' || ch == '[' {
				depth++
			} else if (ch == '}' || ch == ']') && depth > 0 {
				depth--
			} else if (ch == ',' || ch == '}' || ch == ']') && depth == 0 {
				break
			}
		}
		return doc[:i] + []string{"null", "5", `"x"`, "[]", "{}", "true", `[{"typeOf":"nope"}]`, "-1", "1e99", `{"typeOf":"lambda"}`, `{"typeOf":"binary","operator":"+"}`, `""`}[what%12] + doc[j:]
	case 4: // truncate
		return doc[:where%(len(doc)+1)]
	case 5: // drop a key
		at := occ(`,"`)
		if len(at) == 0 {
			return doc
		}
		i := at[where%len(at)]
		j := i + 1 + strings.Index(doc[i+1:], `":`)
		return doc[:i+2] + "zz" + doc[j:]
	case 6: // node ids
		at := occ(`"id":"`)
		if len(at) == 0 {
			return doc
		}
		i := at[where%len(at)] + len(`"id":"`)
		j := i + strings.IndexByte(doc[i:], '"')
		return doc[:i] + []string{"0", "-1", "999", "x", ""}[what%5] + doc[j:]
	default: // edges
		at := occ(`"edges":[`)
		if len(at) == 0 {
			return doc
		}
		i := at[0] + len(`"edges":[`)
		return doc[:i] + []string{`{"parent":"0","child":"0"},`, `{"parent":"1","child":"0"},`, `{"parent":"77","child":"78"},`, `{},`, `5,`}[what%5] + doc[i:]
	}
}

func runC05(c *Ctx) Verdict {
	sc := c05Gen(c)
	c.Scenario = sc
	if os.Getenv("KAPSIM_DEBUG") != "" {
		// a script that kills the process outright (fatal error, not a panic) leaves no replay file: print the case first
		b, _ := json.Marshal(sc)
		fmt.Fprintf(os.Stderr, "C05 case: %s\n", b)
	}
	cfg := c.WorldConfig()
	cfg.MaxSteps = 3_000_000
	delete(cfg.Knobs, "MinimumEventBufferSize")
	delete(cfg.Knobs, "DefaultEventBufferSize")
	sc.Config = fmt.Sprintf("%v p=%.2f pool=%d", cfg.Strategy, cfg.SwitchProb, cfg.PoolMode)
	shape := map[string]interface{}{"mode": sc.Mode, "node": sc.Node, "peer": sc.Peer}
	if sc.Node == "params" {
		// a count or size of 2^63-1: the node allocates what the script asks for
		shape["size_argument_maxint"] = strings.Contains(sc.Lambda, "9223372036854775807")
	}
	var verdict Verdict
	var leaked []simrt.ParkedInfo
	var d *harness.Daemon
	var defineErr, defineErr2 error
	trivialJSON := false
	stopped := false
	var ms0, ms1 runtime.MemStats
	runtime.ReadMemStats(&ms0)
	res := c.World(cfg, func() {
		var err error
		us := &c05UDF{peer: sc.Peer, timeout: 10 * time.Second}
		d, err = harness.NewDaemon(harness.DaemonOpts{UDF: us, Influx: &harness.FakeInflux{}, WithTaskStore: sc.Mode == "vars"})
		if err != nil {
			verdict = Fail("harness/setup", "daemon: %v", err)
			return
		}
		dbrps := []kapacitor.DBRP{{Database: "db", RetentionPolicy: "rp"}}
		if sc.Mode == "json" {
			tt := kapacitor.StreamTask
			if strings.HasPrefix(strings.TrimSpace(sc.Script), "batch") {
				tt = kapacitor.BatchTask
			}
			task, err := d.TM.NewTask("J", sc.Script, tt, dbrps, 0, nil)
			if err != nil {
				defineErr = err // one corpus script is itself rejected (a regex where a string is expected): nothing to serialise
				trivialJSON = true
				return
			}
			data, err := json.Marshal(task.Pipeline)
			if err != nil {
				verdict = Fail("harness/setup", "pipeline cannot be serialised: %v", err)
				return
			}
			var op, where, what int
			fmt.Sscanf(sc.Doc, "%d:%d:%d", &op, &where, &what)
			mutated := c05MutateJSON(string(data), op, where, what)
			sc.Doc += " => " + truncateStr(mutated, 300)
			done := simrt.Expect("Pipeline.Unmarshal returns", 2_000_000, time.Hour)
			p := &pipeline.Pipeline{}
			defineErr = p.Unmarshal([]byte(mutated))
			done()
			return
		}
		if sc.Mode == "vars" {
			body := fmt.Sprintf(`{"id":"V","type":"stream","dbrps":[{"db":"db","rp":"rp"}],"script":%q,"vars":%s}`, sc.Script, sc.Doc)
			done := simrt.Expect("task definition with vars returns", 2_000_000, time.Hour)
			code, _ := d.Do("POST", "/kapacitor/v1/tasks", body)
			if code >= 300 {
				defineErr = fmt.Errorf("HTTP %d", code)
			}
			// the same script as a template, read back (its vars are rendered), instantiated with the document, read back
			var codes []int
			do := func(method, path, body string) {
				code, rb := d.Do(method, path, body)
				codes = append(codes, code)
				if len(codes) == 1 && code >= 300 {
					sc.Lambda = truncateStr(rb, 300)
				}
			}
			do("POST", "/kapacitor/v1/templates", fmt.Sprintf(`{"id":"TV","type":"stream","script":%q}`, sc.Script))
			do("GET", "/kapacitor/v1/templates/TV", "")
			do("GET", "/kapacitor/v1/templates", "")
			do("POST", "/kapacitor/v1/tasks", fmt.Sprintf(`{"id":"VT","template-id":"TV","dbrps":[{"db":"db","rp":"rp"}],"vars":%s}`, sc.Doc))
			do("GET", "/kapacitor/v1/tasks/VT", "")
			do("GET", "/kapacitor/v1/tasks/V?dot-view=labels&script-format=raw", "")
			do("PATCH", "/kapacitor/v1/templates/TV", fmt.Sprintf(`{"script":%q}`, sc.Script))
			done()
			sc.Peer = fmt.Sprint("statuses ", code, codes)
			if codes[0] >= 300 {
				verdict = Fail("harness/setup", "the fixed script is not accepted as a template: %d %s", codes[0], sc.Lambda)
			}
			return
		}
		if sc.Mode == "define" {
			g0 := simrt.GoroutineCount()
			done := simrt.Expect("defining the task returns", 2_000_000, time.Hour)
			_, err1 := ast.Parse(sc.Script)
			_, err2 := tick.Format(sc.Script)
			tt := kapacitor.StreamTask
			if strings.HasPrefix(strings.TrimSpace(sc.Script), "batch") {
				tt = kapacitor.BatchTask
			}
			_, defineErr = d.TM.NewTask("D", sc.Script, tt, dbrps, 0, nil)
			_, defineErr2 = d.TM.NewTemplate("D", sc.Script, tt)
			done()
			_, _ = err1, err2
			simrt.Fair()
			simrt.WaitIdle()
			leaked = simrt.LiveSince(g0)
			return
		}
		// bystander task
		tb, err := d.Define("B", "stream\n    |from().measurement('m')\n    |log().prefix('B')\n", kapacitor.StreamTask, dbrps)
		if err != nil {
			verdict = Fail("harness/setup", "define B: %v", err)
			return
		}
		if _, err := d.TM.StartTask(tb); err != nil {
			verdict = Fail("harness/setup", "start B: %v", err)
			return
		}
		ta, err := d.Define("A", sc.Script, kapacitor.StreamTask, dbrps)
		if err != nil {
			defineErr = err
			return // a rejected definition is a fine answer
		}
		if _, err := d.TM.StartTask(ta); err != nil {
			defineErr = err
			return
		}
		for _, l := range sc.Lines {
			if code := d.WriteLine("db", "rp", l+"\n"); code != 204 {
				verdict = Fail("harness/setup", "write %q rejected: %d", l, code)
				return
			}
			if sc.Mode == "peer" || strings.Contains(sc.Lambda, "barrier(") {
				// a running UDF server keeps arming keepalive timers (an idle barrier its timer), so the system is never idle: wait on the clock
				time.Sleep(200 * time.Millisecond)
			} else {
				simrt.WaitIdle()
			}
		}
		if sc.Mode == "peer" {
			// let keepalive timeouts and aborts play out
			time.Sleep(25 * time.Second)
		}
		simrt.Fair()
		done := simrt.Expect("StopTask", 3_000_000, time.Hour)
		d.TM.StopTask("A")
		done()
		stopped = true
		if sc.Mode == "peer" || strings.Contains(sc.Lambda, "barrier(") {
			time.Sleep(time.Second)
		} else {
			simrt.WaitIdle()
		}
	})
	runtime.ReadMemStats(&ms1)
	if v, bad := WorldVerdict(res, false); bad {
		v.Shape = shape
		return v
	}
	if verdict.Class != "" {
		return verdict
	}
	if grown := ms1.TotalAlloc - ms0.TotalAlloc; sc.Mode == "peer" && grown > 256<<20 {
		v := Fail("peer-controlled-allocation", "a few bytes from the UDF peer (%s) made the daemon allocate %d MB", sc.Peer, grown>>20)
		v.Shape = shape
		return v
	}
	if sc.Mode == "json" || sc.Mode == "vars" {
		c.Trivial = trivialJSON
		return Pass() // the call returned a value or an error and no goroutine panicked
	}
	if sc.Mode == "define" {
		if len(leaked) > 0 {
			v := Fail("goroutine-leak", "defining the script returned (NewTask err=%v, NewTemplate err=%v) but %d goroutine(s) started by it never finish: %v\nmutation: %s", defineErr, defineErr2, len(leaked), leaked, sc.Mut)
			v.Shape = map[string]interface{}{"mode": sc.Mode, "definition_rejected": defineErr != nil}
			return v
		}
		return Pass()
	}
	if defineErr != nil {
		c.Trivial = true
		return Pass()
	}
	_ = stopped
	// the bystander saw every point
	if n := len(d.Sinks.Get("B")); n != len(sc.Lines) {
		v := Fail("bystander-affected", "task B (plain from|log) received %d of %d points while task A was fed bad input / a misbehaving peer", n, len(sc.Lines))
		v.Shape = shape
		return v
	}
	if sc.Mode == "runtime" {
		// the good points after the bad one must still be processed: the last good point reaches A's sink whenever
		// the first good point did (same values => same predicate result)
		obs := d.Sinks.Get("A")
		first, last := false, false
		for _, o := range obs {
			if o.Copy == nil {
				continue // a batch (the parameterised chains may end in one)
			}
			if o.Copy.TimeNs == 1000000000 {
				first = true
			}
			if o.Copy.TimeNs == 4000000000 {
				last = true
			}
		}
		stateful := sc.Node == "stateCount" || sc.Node == "stateDuration" || sc.Node == "derivative" || strings.Contains(sc.Lambda, "sigma") || sc.Node == "params"
		if first && !last && !stateful {
			v := Fail("task-killed-by-point", "the first good point reached task A's sink, the identical good point after the bad one (%s) did not: the task stopped processing. node errors: %v", sc.Bad, firstN(d.Sinks.Errs, 3))
			v.Shape = shape
			return v
		}
		for _, e := range d.Sinks.Errs {
			if strings.Contains(e, "node failed") {
				v := Fail("task-killed-by-point", "a node of task A failed on a data point (%s): %s", sc.Bad, e)
				v.Shape = shape
				return v
			}
		}
	}
	return Pass()
}

func init() {
	Register(&Prop{
		ID:  "C05",
		Run: runC05,
		Rule: "case = one of five modes. json: the pipeline of a corpus script serialised to JSON, one seeded textual mutation (node type changed or unknown, value of another JSON kind, truncation, dropped key, node ids, edges), offered to Pipeline.Unmarshal; vars: a task definition with one of 30 well- and ill-formed vars documents POSTed to the real task_store handler, then the same script as a template (created, read back with its vars rendered, instantiated with the document, updated); define: a corpus script (7 scripts covering most node kinds and unary operators on operands they do not apply to) with 1-3 seeded byte-level mutations (truncate, delete, duplicate, rotate, multi-byte rune, comment or comment continuation lines after '/', stray tokens, property without parentheses, random byte, dropped parentheses, 4-7 extra arguments) offered to ast.Parse, tick.Format, TaskMaster.NewTask and NewTemplate inside a world; runtime: (a third of these cases) one of 75 node chains whose count/size/duration/percentile properties are filled with boundary values (0, -1, 1, +-2^63, 0s, -1s, 1ns, the longest duration, 0.0, 100.5, 1.8e308) and which, if the node API accepts them, must process eight points without a node failing; or a running task with one of 24 lambdas (three with two dynamic operands, fed a point in which both change type) in where/alert/stateCount/stateDuration/from/eval/derivative fed good, bad (zero/overflowing divisors, wrong types, empty strings, strings of 33-40 multi-byte characters, missing fields), good points next to a bystander task; peer: a task with a UDF node on the real UDFSocket/udf.Server over simulated pipes against an echo agent or one of 10 misbehaving peers (a batch announcing 2^33..2^62 or a negative number of points, garbage, wrong response types, oversized length prefix, half a frame then close, empty message, end without begin, close after info/init, silence, a duration field reaching the UDF); " +
			"non-trivial = the task was defined (runtime/peer) or any define case; distinct = distinct (scenario, interleaving signature) pairs",
		Real:        []string{"tick/ast lexer goroutine + parser, tick.Format, tick evaluator, pipeline.CreatePipeline/CreateTemplatePipeline, TaskMaster.NewTask/NewTemplate", "node.start recover path, WhereNode, AlertNode, StateTracking nodes, FromNode, EvalNode, DerivativeNode, tick/stateful evaluator and functions", "UDFNode, UDFSocket, udf.Server, udf/agent framing", "TaskMaster ingest/fork, httpd write endpoint"},
		Stub:        []string{"UDFService on the existing seam: real UDFSocket over SimPipes, in-process echo agent or scripted hostile peer", "recording sinks"},
		Assumptions: []string{"the 'every byte string up to length n / coverage-guided' quantifier over pure parser input is input fuzzing and not claimed; this check covers the goroutine protocol of parsing, running tasks and peers", "a panic in any simulated goroutine is process-fatal, as it is in the real daemon (only Kapacitor's own recover calls intervene)"},
	})
}
