package props

import (
	"encoding/json"
	"fmt"
	"path"
	"sort"
	"strings"
	"sync"
	"time"

	"github.com/influxdata/kapacitor/services/storage"
	"github.com/influxdata/kapacitor/zz_deps/porcupine"
	"github.com/influxdata/kapacitor/zz_sim/harness"
	"github.com/influxdata/kapacitor/zz_sim/simrt"
)

// C15 — the indexed key/value store stays consistent under any operation history.

type c15Obj struct {
	ID   string `json:"id"`
	Kind string `json:"kind"`
	Val  int    `json:"val"`
}

func (o *c15Obj) ObjectID() string               { return o.ID }
func (o *c15Obj) MarshalBinary() ([]byte, error) { return json.Marshal(o) }
func (o *c15Obj) UnmarshalBinary(b []byte) error { return json.Unmarshal(b, o) }

type c15Op struct {
	Op      string  `json:"op"` // create put replace delete get list
	ID      string  `json:"id,omitempty"`
	Kind    string  `json:"kind,omitempty"`
	Val     int     `json:"val,omitempty"`
	Index   string  `json:"index,omitempty"`
	Pattern string  `json:"pattern,omitempty"`
	Offset  int     `json:"offset,omitempty"`
	Limit   int     `json:"limit,omitempty"`
	Reverse bool    `json:"reverse,omitempty"`
	Sub     []c15Op `json:"in_one_transaction,omitempty"` // op "tx": several writes committed (or rejected) together
}

type c15Scenario struct {
	Mode    string    `json:"mode"` // sequential | concurrent
	Clients [][]c15Op `json:"clients"`
	Config  string    `json:"config,omitempty"`
}

var c15IDs = []string{"a", "ab", "abc", "b"}
var c15Kinds = []string{"k1", "k2", "k1x"}
var c15Patterns = []string{"", "a*", "*b*", "?", "b", "[ab]b*"}

func c15GenOps(c *Ctx, n int, val *int) []c15Op {
	g := c.G
	var ops []c15Op
	for i := 0; i < n; i++ {
		*val++
		switch g.Intn(10) {
		case 9:
			// several writes in one transaction, as the services do it (e.g. a task and its template association)
			tx := c15Op{Op: "tx"}
			for k, n := 0, g.Range(2, 3); k < n; k++ {
				*val++
				sub := c15Op{Op: []string{"create", "put", "put", "replace", "delete"}[g.Intn(5)], ID: g.Pick(c15IDs)}
				if sub.Op != "delete" {
					sub.Kind, sub.Val = g.Pick(c15Kinds), *val
				}
				tx.Sub = append(tx.Sub, sub)
			}
			ops = append(ops, tx)
		case 0, 1:
			ops = append(ops, c15Op{Op: "create", ID: g.Pick(c15IDs), Kind: g.Pick(c15Kinds), Val: *val})
		case 2:
			ops = append(ops, c15Op{Op: "put", ID: g.Pick(c15IDs), Kind: g.Pick(c15Kinds), Val: *val})
		case 3, 4:
			ops = append(ops, c15Op{Op: "replace", ID: g.Pick(c15IDs), Kind: g.Pick(c15Kinds), Val: *val})
		case 5:
			ops = append(ops, c15Op{Op: "delete", ID: g.Pick(c15IDs)})
		case 6:
			ops = append(ops, c15Op{Op: "get", ID: g.Pick(c15IDs)})
		default:
			op := c15Op{Op: "list", Index: []string{"id", "kind"}[g.Intn(2)], Pattern: g.Pick(c15Patterns), Offset: g.Intn(3), Limit: []int{100, 1, 2, 0, -1}[g.Intn(5)], Reverse: g.Chance(1, 4)}
			ops = append(ops, op)
		}
	}
	return ops
}

// ---- reference model ----

type c15Model map[string]c15Obj

func (m c15Model) clone() c15Model {
	o := c15Model{}
	for k, v := range m {
		o[k] = v
	}
	return o
}

func (m c15Model) list(op c15Op) []string {
	var ids []string
	for id := range m {
		ids = append(ids, id)
	}
	if op.Index == "id" {
		sort.Strings(ids)
	} else {
		sort.Slice(ids, func(i, j int) bool {
			return m[ids[i]].Kind+"/"+ids[i] < m[ids[j]].Kind+"/"+ids[j]
		})
	}
	if op.Reverse {
		for i, j := 0, len(ids)-1; i < j; i, j = i+1, j-1 {
			ids[i], ids[j] = ids[j], ids[i]
		}
	}
	var matched []string
	for _, id := range ids {
		if op.Pattern != "" {
			if ok, _ := path.Match(op.Pattern, id); !ok {
				continue
			}
		}
		matched = append(matched, id)
	}
	if op.Offset >= len(matched) {
		return nil
	}
	matched = matched[op.Offset:]
	if op.Limit >= 0 && len(matched) > op.Limit {
		matched = matched[:op.Limit]
	}
	return matched
}

// apply returns the expected result string of op on m (mutating m).
func (m c15Model) apply(op c15Op) string {
	switch op.Op {
	case "tx":
		// all or nothing: the first rejected write rejects the transaction
		t := m.clone()
		for _, sub := range op.Sub {
			if r := t.apply(sub); strings.HasPrefix(r, "err:") {
				return r
			}
		}
		for k := range m {
			delete(m, k)
		}
		for k, v := range t {
			m[k] = v
		}
		return "ok"
	case "create":
		if _, ok := m[op.ID]; ok {
			return "err:exists"
		}
		m[op.ID] = c15Obj{op.ID, op.Kind, op.Val}
		return "ok"
	case "put":
		m[op.ID] = c15Obj{op.ID, op.Kind, op.Val}
		return "ok"
	case "replace":
		if _, ok := m[op.ID]; !ok {
			return "err:missing"
		}
		m[op.ID] = c15Obj{op.ID, op.Kind, op.Val}
		return "ok"
	case "delete":
		delete(m, op.ID)
		return "ok"
	case "get":
		o, ok := m[op.ID]
		if !ok {
			return "err:missing"
		}
		return fmt.Sprintf("%s:%s:%d", o.ID, o.Kind, o.Val)
	case "list":
		var out []string
		for _, id := range m.list(op) {
			o := m[id]
			out = append(out, fmt.Sprintf("%s:%s:%d", o.ID, o.Kind, o.Val))
		}
		return "[" + strings.Join(out, " ") + "]"
	}
	return "?"
}

func c15Exec(s *storage.IndexedStore, op c15Op) string {
	res := func(err error) string {
		switch err {
		case nil:
			return "ok"
		case storage.ErrObjectExists:
			return "err:exists"
		case storage.ErrNoObjectExists:
			return "err:missing"
		case harness.ErrInjected:
			return "err:injected"
		}
		if strings.Contains(err.Error(), "injected storage failure") {
			return "err:injected"
		}
		return "err:" + err.Error()
	}
	switch op.Op {
	case "tx":
		return res(s.Store().Update(func(tx storage.Tx) error {
			for _, sub := range op.Sub {
				var err error
				switch sub.Op {
				case "create":
					err = s.CreateTx(tx, &c15Obj{sub.ID, sub.Kind, sub.Val})
				case "put":
					err = s.PutTx(tx, &c15Obj{sub.ID, sub.Kind, sub.Val})
				case "replace":
					err = s.ReplaceTx(tx, &c15Obj{sub.ID, sub.Kind, sub.Val})
				case "delete":
					err = s.DeleteTx(tx, sub.ID)
				}
				if err != nil {
					return err
				}
			}
			return nil
		}))
	case "create":
		return res(s.Create(&c15Obj{op.ID, op.Kind, op.Val}))
	case "put":
		return res(s.Put(&c15Obj{op.ID, op.Kind, op.Val}))
	case "replace":
		return res(s.Replace(&c15Obj{op.ID, op.Kind, op.Val}))
	case "delete":
		return res(s.Delete(op.ID))
	case "get":
		o, err := s.Get(op.ID)
		if err != nil {
			return res(err)
		}
		x := o.(*c15Obj)
		return fmt.Sprintf("%s:%s:%d", x.ID, x.Kind, x.Val)
	case "list":
		var objs []storage.BinaryObject
		var err error
		if op.Reverse {
			objs, err = s.ReverseList(op.Index, op.Pattern, op.Offset, op.Limit)
		} else {
			objs, err = s.List(op.Index, op.Pattern, op.Offset, op.Limit)
		}
		if err != nil {
			return res(err)
		}
		var out []string
		for _, o := range objs {
			x := o.(*c15Obj)
			out = append(out, fmt.Sprintf("%s:%s:%d", x.ID, x.Kind, x.Val))
		}
		return "[" + strings.Join(out, " ") + "]"
	}
	return "?"
}

func c15Open(st *harness.SimStorage) (*storage.IndexedStore, error) {
	cfg := storage.DefaultIndexedStoreConfig("p", func() storage.BinaryObject { return new(c15Obj) })
	cfg.Indexes = append(cfg.Indexes, storage.Index{Name: "kind", ValueFunc: func(o storage.BinaryObject) (string, error) { return o.(*c15Obj).Kind, nil }})
	return storage.NewIndexedStore(st.Store("c15"), cfg)
}

// c15Invariant reads the raw keys and checks that data keys and index entries are in bijection and agree with the model.
func c15Invariant(st *harness.SimStorage, m c15Model) string {
	var data, idIdx, kindIdx []*storage.KeyValue
	err := st.Store("c15").View(func(tx storage.ReadOnlyTx) error {
		var err error
		if data, err = tx.List("/p/data/"); err != nil {
			return err
		}
		if idIdx, err = tx.List("/p/indexes/id/"); err != nil {
			return err
		}
		kindIdx, err = tx.List("/p/indexes/kind/")
		return err
	})
	if err != nil {
		return "raw view failed: " + err.Error()
	}
	if len(data) != len(m) {
		return fmt.Sprintf("%d data keys, model holds %d objects", len(data), len(m))
	}
	for _, kv := range data {
		id := strings.TrimPrefix(kv.Key, "/p/data/")
		want, ok := m[id]
		if !ok {
			return fmt.Sprintf("data key %q for an object the model does not hold", kv.Key)
		}
		var o c15Obj
		if err := json.Unmarshal(kv.Value, &o); err != nil || o != want {
			return fmt.Sprintf("data key %q holds %s, model holds %+v", kv.Key, kv.Value, want)
		}
	}
	if len(idIdx) != len(m) {
		return fmt.Sprintf("id index has %d entries for %d objects: %s", len(idIdx), len(m), c15Keys(idIdx))
	}
	for _, kv := range idIdx {
		id := strings.TrimPrefix(kv.Key, "/p/indexes/id/")
		if _, ok := m[id]; !ok || string(kv.Value) != id {
			return fmt.Sprintf("id index entry %q -> %q without matching object", kv.Key, kv.Value)
		}
	}
	if len(kindIdx) != len(m) {
		return fmt.Sprintf("kind index has %d entries for %d objects: %s", len(kindIdx), len(m), c15Keys(kindIdx))
	}
	for _, kv := range kindIdx {
		id := string(kv.Value)
		o, ok := m[id]
		if !ok || kv.Key != "/p/indexes/kind/"+o.Kind+"/"+id {
			return fmt.Sprintf("kind index entry %q -> %q does not match object %+v", kv.Key, kv.Value, o)
		}
	}
	return ""
}

func c15Keys(kvs []*storage.KeyValue) string {
	var ks []string
	for _, kv := range kvs {
		ks = append(ks, kv.Key)
	}
	return fmt.Sprint(ks)
}

// c15Sequential runs one history with one injected failure position (0 = none) and an optional reopen point.
// It returns the number of underlying writes seen and a verdict.
func c15Sequential(ops []c15Op, failAt int, reopenAfter int) (int, Verdict) {
	st, err := harness.NewSimStorage("")
	if err != nil {
		return 0, Fail("harness/setup", "%v", err)
	}
	defer st.Close()
	is, err := c15Open(st)
	if err != nil {
		return 0, Fail("harness/setup", "%v", err)
	}
	st.FailWriteAt = failAt
	m := c15Model{}
	for i, op := range ops {
		before := m.clone()
		writesBefore := st.Writes
		got := c15Exec(is, op)
		injected := failAt > 0 && writesBefore < failAt && st.Writes >= failAt
		var want string
		if injected {
			// the operation containing the failed write must fail and leave no trace
			m = before
			if !strings.HasPrefix(got, "err:") {
				return st.Writes, Fail("atomicity/error-swallowed", "op #%d %+v: underlying write #%d failed but the operation reported %q", i, op, failAt, got)
			}
			simrt.Count("fault.storage.write_err_hit")
		} else {
			want = m.apply(op)
			if got != want {
				cls := "model/" + op.Op
				return st.Writes, Fail(cls, "op #%d %+v returned %s, reference model says %s (history so far: %s)", i, op, got, want, c15Hist(ops[:i+1]))
			}
		}
		if msg := c15Invariant(st, m); msg != "" {
			cls := "index-data-agreement"
			if injected {
				cls = "atomicity/partial-write"
			}
			return st.Writes, Fail(cls, "after op #%d %+v (result %s, injected=%v): %s", i, op, got, injected, msg)
		}
		if reopenAfter == i {
			// reopen on a byte copy of the file as it stands after this operation
			cp, err := st.DurableCopy()
			if err != nil {
				return st.Writes, Fail("harness/setup", "copy: %v", err)
			}
			st2, err := harness.NewSimStorage(cp)
			if err != nil {
				return st.Writes, Fail("reopen/open", "cannot reopen the store after op #%d: %v", i, err)
			}
			is2, _ := c15Open(st2)
			all := c15Op{Op: "list", Index: "id", Limit: 100}
			got := c15Exec(is2, all)
			want := m.clone().apply(all)
			msg := c15Invariant(st2, m)
			st2.Close()
			if got != want {
				return st.Writes, Fail("reopen/contents", "after reopening following op #%d the store lists %s, model holds %s", i, got, want)
			}
			if msg != "" {
				return st.Writes, Fail("reopen/index-data-agreement", "after reopening following op #%d: %s", i, msg)
			}
			simrt.Count("fault.reopen")
		}
	}
	return st.Writes, Verdict{}
}

func c15Hist(ops []c15Op) string {
	var ss []string
	for _, o := range ops {
		switch o.Op {
		case "tx":
			ss = append(ss, "tx{"+c15Hist(o.Sub)+"}")
		case "list":
			ss = append(ss, fmt.Sprintf("list(%s,%q,%d,%d,rev=%v)", o.Index, o.Pattern, o.Offset, o.Limit, o.Reverse))
		case "get", "delete":
			ss = append(ss, fmt.Sprintf("%s(%s)", o.Op, o.ID))
		default:
			ss = append(ss, fmt.Sprintf("%s(%s,%s,%d)", o.Op, o.ID, o.Kind, o.Val))
		}
	}
	return strings.Join(ss, " ")
}

// ---- porcupine model for concurrent histories ----

type c15State struct {
	objs [4]c15Obj
	has  [4]bool
}

func c15Idx(id string) int {
	for i, x := range c15IDs {
		if x == id {
			return i
		}
	}
	return -1
}

func (s c15State) model() c15Model {
	m := c15Model{}
	for i := range s.objs {
		if s.has[i] {
			m[c15IDs[i]] = s.objs[i]
		}
	}
	return m
}

func c15FromModel(m c15Model) c15State {
	var s c15State
	for id, o := range m {
		i := c15Idx(id)
		s.objs[i] = o
		s.has[i] = true
	}
	return s
}

var c15Porc = porcupine.Model{
	Init: func() interface{} { return c15State{} },
	Step: func(state, input, output interface{}) (bool, interface{}) {
		m := state.(c15State).model()
		want := m.apply(input.(c15Op))
		return want == output.(string), c15FromModel(m)
	},
	Equal: func(a, b interface{}) bool { return a.(c15State) == b.(c15State) },
	DescribeOperation: func(input, output interface{}) string {
		return c15Hist([]c15Op{input.(c15Op)}) + " -> " + output.(string)
	},
}

func runC15(c *Ctx) Verdict {
	g := c.G
	sc := &c15Scenario{Mode: "sequential"}
	if g.Chance(1, 3) {
		sc.Mode = "concurrent"
	}
	c.Scenario = sc
	val := 0
	if sc.Mode == "sequential" {
		n := g.Range(2, 12)
		if c.Thorough() {
			n = g.Range(2, 30)
		}
		ops := c15GenOps(c, n, &val)
		sc.Clients = [][]c15Op{ops}
		var verdict Verdict
		cfg := c.WorldConfig()
		cfg.MaxSteps = 5_000_000
		res := c.World(cfg, func() {
			// fault-free pass counts the underlying writes
			total, v := c15Sequential(ops, 0, -1)
			if v.Class != "" {
				verdict = v
				return
			}
			// a reopen after every operation
			for i := range ops {
				if _, v := c15Sequential(ops, 0, i); v.Class != "" {
					verdict = v
					return
				}
			}
			if c.FaultFree {
				return
			}
			// an injected failure at every underlying write (Put / Delete / Commit)
			for j := 1; j <= total; j++ {
				if _, v := c15Sequential(ops, j, -1); v.Class != "" {
					verdict = v
					verdict.Detail = fmt.Sprintf("[failure injected at underlying write #%d of %d] ", j, total) + verdict.Detail
					return
				}
			}
			simrt.CountN("obs.fault_positions_enumerated", int64(total))
		})
		if v, bad := WorldVerdict(res, false); bad {
			return v
		}
		return verdict
	}
	// concurrent clients: linearizability against the same model
	nc := g.Range(2, 3)
	for i := 0; i < nc; i++ {
		sc.Clients = append(sc.Clients, c15GenOps(c, g.Range(1, 7), &val))
	}
	cfg := c.WorldConfig()
	cfg.MaxSteps = 3_000_000
	sc.Config = fmt.Sprintf("%v p=%.2f", cfg.Strategy, cfg.SwitchProb)
	var hist []porcupine.Operation
	var verdict Verdict
	var final string
	res := c.World(cfg, func() {
		st, err := harness.NewSimStorage("")
		if err != nil {
			verdict = Fail("harness/setup", "%v", err)
			return
		}
		is, _ := c15Open(st)
		var wg sync.WaitGroup
		for ci, ops := range sc.Clients {
			wg.Add(1)
			go func(ci int, ops []c15Op) {
				defer wg.Done()
				for _, op := range ops {
					call := simrt.Stamp()
					out := c15Exec(is, op)
					ret := simrt.Stamp()
					hist = append(hist, porcupine.Operation{ClientId: ci, Input: op, Output: out, Call: call, Return: ret})
				}
			}(ci, ops)
		}
		done := simrt.Expect("clients finish", 2_000_000, time.Hour)
		wg.Wait()
		done()
		// final cross-invariant: whatever order was taken, index and data agree with the listed contents
		all := c15Op{Op: "list", Index: "id", Limit: 100}
		final = c15Exec(is, all)
		m := c15Model{}
		for _, f := range strings.Fields(strings.Trim(final, "[]")) {
			var o c15Obj
			parts := strings.Split(f, ":")
			o.ID, o.Kind = parts[0], parts[1]
			fmt.Sscanf(parts[2], "%d", &o.Val)
			m[o.ID] = o
		}
		if msg := c15Invariant(st, m); msg != "" {
			verdict = Fail("index-data-agreement", "after a concurrent history: %s", msg)
		}
		st.Close()
	})
	if v, bad := WorldVerdict(res, false); bad {
		return v
	}
	if verdict.Class != "" {
		return verdict
	}
	r := porcupine.CheckOperationsTimeout(c15Porc, hist, 20*time.Second)
	switch r {
	case porcupine.Illegal:
		sort.Slice(hist, func(i, j int) bool { return hist[i].Call < hist[j].Call })
		var sb strings.Builder
		for _, o := range hist {
			fmt.Fprintf(&sb, "  [%d..%d] c%d %s\n", o.Call, o.Return, o.ClientId, c15Porc.DescribeOperation(o.Input, o.Output))
		}
		return Fail("not-linearizable", "concurrent history admits no linearization against the map model:\n%s", sb.String())
	case porcupine.Unknown:
		c.Counters["porcupine.unknown"]++
	default:
		c.Counters["porcupine.ok"]++
	}
	return Pass()
}

func init() {
	Register(&Prop{
		ID:  "C15",
		Run: runC15,
		Rule: "case = a seeded history of create/put/replace/delete/get/list(index id|kind, 6 glob patterns, offset 0-2, limit 100/1/2/0/-1, reverse) over 4 ids that are prefixes of one another and 3 secondary-index values that change on replace; " +
			"one operation in ten is a transaction of 2-3 writes (create/put/replace/delete) committed or rejected as a whole; " +
			"sequential histories (2-12/30 ops) are replayed once per operation with a reopen on a byte copy of the Bolt file after that operation, and once per underlying write (Put/Delete/Commit) with that write failing; concurrent histories (2-3 clients x 1-7 ops) run under one seeded schedule and are checked with porcupine; " +
			"non-trivial = every case; distinct = distinct (scenario, interleaving signature) pairs",
		Real:        []string{"services/storage IndexedStore (put/replace/delete/list/DoListFunc)", "services/storage Bolt adapter (boltTx, nested buckets, list)", "go.etcd.io/bbolt on a real file (uninstrumented)"},
		Stub:        []string{"storage.Interface wrapper that injects Put/Delete/Commit failures and takes byte copies of the Bolt file (harness)", "porcupine v1.3.0"},
		Assumptions: []string{"bbolt's own commit atomicity and on-disk format are trusted; torn writes below Bolt's transaction API are out of scope", "a reopen uses a byte copy of the file taken between transactions"},
	})
}
