// Package props holds one simulated check per property and the small framework they share.
package props

import (
	"fmt"
	"sort"
	"time"

	"github.com/influxdata/kapacitor/zz_sim/gen"
	"github.com/influxdata/kapacitor/zz_sim/simrt"
)

// Verdict of one simulated case.
type Verdict struct {
	OK           bool
	Class        string // stable violation class: "<clause>" (used by the minimiser and known-findings)
	Detail       string
	Inconclusive bool
	Shape        map[string]interface{} // facts about the failing case used to match known findings
}

func Pass() Verdict { return Verdict{OK: true} }
func Fail(class, format string, a ...interface{}) Verdict {
	return Verdict{Class: class, Detail: fmt.Sprintf(format, a...)}
}

// Ctx is handed to a property's Run.
type Ctx struct {
	Tier      string
	FaultFree bool
	G         *gen.G
	inTapes   [][]uint32
	OutTapes  [][]uint32
	Scenario  interface{} // JSON-able description of the generated case (for samples and replay files)
	Trivial   bool        // set by the property when the case exercised nothing of interest

	Worlds    int
	Steps     int64
	Switches  int64
	VirtualNs int64
	Sigs      []uint64
	Trace     uint64
	Counters  map[string]int64
	MaxG      int
	Last      *simrt.Result
	Overrun   bool

	// Known is set by the worker: does a violation of this class and shape match a recorded known finding?
	Known    func(class string, shape map[string]interface{}) bool
	deferred *Verdict
}

// Report is called for a violation found in the middle of a sweep (crash positions, fault positions). It returns
// true when the run should stop and return v. A violation that matches a recorded known finding is kept and the
// sweep goes on, so that a known finding does not hide a different violation later in the same case.
func (c *Ctx) Report(v Verdict) bool {
	if c.Known != nil && c.Known(v.Class, v.Shape) {
		if c.deferred == nil {
			c.deferred = &v
		}
		c.Counters["obs.known_finding_passed_over"]++
		return false
	}
	return true
}

// Finish is the verdict of a sweep that met nothing but known findings, if any.
func (c *Ctx) Finish() Verdict {
	if c.deferred != nil {
		return *c.deferred
	}
	return Pass()
}

func NewCtx(tier string, faultFree bool, g *gen.G, tapes [][]uint32) *Ctx {
	return &Ctx{Tier: tier, FaultFree: faultFree, G: g, inTapes: tapes, Counters: map[string]int64{}, Trace: 1469598103934665603}
}

func (c *Ctx) Thorough() bool { return c.Tier == "thorough" }

// WorldConfig draws a swarm configuration for one world.
func (c *Ctx) WorldConfig() simrt.Config {
	g := c.G
	cfg := simrt.Config{Seed: g.Seed(), Knobs: map[string]int{}}
	if c.FaultFree {
		if g.Bool() {
			cfg.Strategy = simrt.StratSticky
			cfg.SwitchProb = []float64{0.02, 0.05, 0.1}[g.Intn(3)]
		} else {
			cfg.Strategy = simrt.StratRandom
			cfg.SwitchProb = []float64{0.3, 0.6, 1.0}[g.Intn(3)]
		}
		cfg.StepCostNs = 1000
		return cfg
	}
	switch g.Intn(10) {
	case 0, 1, 2, 3:
		cfg.Strategy = simrt.StratRandom
		cfg.SwitchProb = []float64{0.2, 0.5, 0.8, 1.0}[g.Intn(4)]
	case 4, 5, 6:
		cfg.Strategy = simrt.StratSticky
		cfg.SwitchProb = []float64{0.01, 0.03, 0.1}[g.Intn(3)]
	case 7, 8:
		cfg.Strategy = simrt.StratPCT
		cfg.PCTDepth = 1 + g.Intn(5)
	default:
		cfg.Strategy = simrt.StratStarve
		cfg.SwitchProb = 0.3
	}
	cfg.StepCostNs = []int64{1000, 100, 10000, 50000}[g.Intn(4)]
	cfg.PoolMode = g.Intn(3)
	if g.Chance(1, 4) {
		cfg.TimerLateNs = []int64{1e3, 1e6, 50e6}[g.Intn(3)]
	}
	// knobs: small buffers make "full" cheap to reach; the shipped values are also run
	if !g.Chance(1, 4) {
		cfg.Knobs["defaultEdgeBufferSize"] = []int{1, 2, 3, 5, 8, 16}[g.Intn(6)]
	}
	if !g.Chance(1, 4) {
		n := []int{1, 2, 3, 5, 8}[g.Intn(5)]
		cfg.Knobs["MinimumEventBufferSize"] = 1
		cfg.Knobs["DefaultEventBufferSize"] = n
	}
	return cfg
}

// World runs one world. A tape recorded earlier (replay) takes precedence over the PRNG.
func (c *Ctx) World(cfg simrt.Config, script func()) *simrt.Result {
	idx := c.Worlds
	if c.inTapes != nil {
		if idx < len(c.inTapes) {
			cfg.Tape = c.inTapes[idx]
			if cfg.Tape == nil {
				cfg.Tape = []uint32{}
			}
		} else {
			cfg.Tape = []uint32{}
		}
	}
	res := simrt.Run(cfg, script)
	c.Worlds++
	c.Steps += res.Steps
	c.Switches += res.Switches
	c.VirtualNs += res.VirtualNs
	c.Sigs = append(c.Sigs, res.SwitchSig)
	c.Trace = (c.Trace ^ res.TraceHash) * 1099511628211
	for k, v := range res.Counters {
		c.Counters[k] += v
	}
	if res.Goroutines > c.MaxG {
		c.MaxG = res.Goroutines
	}
	if res.TapeOverrun {
		c.Overrun = true
	}
	c.OutTapes = append(c.OutTapes, res.Tape)
	c.Last = res
	return res
}

// WorldVerdict turns abnormal world endings into verdicts shared by all properties.
func WorldVerdict(res *simrt.Result, allowCrash bool) (Verdict, bool) {
	switch res.Status {
	case simrt.StatusOK:
		return Verdict{}, false
	case simrt.StatusCrash:
		if allowCrash {
			return Verdict{}, false
		}
		return Fail("harness/unexpected-crash", "world crashed unexpectedly"), true
	case simrt.StatusPanic:
		return Fail("panic", "a goroutine panicked (process-fatal in the real daemon): %s\n%s", res.PanicValue, res.PanicStack), true
	case simrt.StatusDeadlock:
		return Fail("deadlock"+expectSuffix(res), "nothing runnable and no timer pending; waiting for %q; parked: %s", res.Expecting, parkedString(res)), true
	case simrt.StatusBudget:
		if res.Expecting != "" {
			return Fail("hang:"+res.Expecting, "call did not return within its budget (%s) at step %d, virtual %v; parked: %s",
				res.BudgetWhy, res.Steps, time.Duration(res.VirtualNs), parkedString(res)), true
		}
		v := Fail("harness/budget", "world exhausted its budget (%s) outside any expectation", res.BudgetWhy)
		v.Inconclusive = true
		return v, true
	case simrt.StatusHole:
		v := Fail("harness/hole", "a goroutine blocked in the Go runtime (instrumentation hole)")
		v.Inconclusive = true
		return v, true
	}
	return Verdict{}, false
}

func expectSuffix(res *simrt.Result) string {
	if res.Expecting != "" {
		return ":" + res.Expecting
	}
	return ""
}

func parkedString(res *simrt.Result) string {
	var ss []string
	for _, p := range res.Parked {
		ss = append(ss, fmt.Sprintf("%s[%s]", p.Name, p.Op))
	}
	sort.Strings(ss)
	if len(ss) > 24 {
		ss = append(ss[:24], "...")
	}
	return fmt.Sprint(ss)
}

// Prop is one registered check.
type Prop struct {
	ID  string
	Run func(c *Ctx) Verdict
	// Rule describes case generation and the non-triviality rule (evidence).
	Rule string
	// Components lists what ran real and what ran as a stub (evidence).
	Real, Stub []string
	// Assumptions for the evidence file.
	Assumptions []string
}

var Registry = map[string]*Prop{}

func Register(p *Prop) { Registry[p.ID] = p }
