// Package gen is the choice source for scenario generation: a tape that is either drawn from a
// seeded PRNG (and recorded) or replayed. Values shrink toward 0, so generators put the simplest
// alternative first.
package gen

type G struct {
	tape    []uint32
	pos     int
	replay  bool
	s       uint64
	Overrun bool
}

func New(seed uint64) *G { return &G{s: seed*0x9E3779B97F4A7C15 + 0xABCDEF} }

func Replay(tape []uint32) *G { return &G{tape: tape, replay: true} }

func (g *G) next() uint64 {
	g.s += 0x9E3779B97F4A7C15
	z := g.s
	z = (z ^ (z >> 30)) * 0xBF58476D1CE4E5B9
	z = (z ^ (z >> 27)) * 0x94D049BB133111EB
	return z ^ (z >> 31)
}

// Intn returns a value in [0,n).
func (g *G) Intn(n int) int {
	if n <= 1 {
		return 0
	}
	if g.replay {
		if g.pos < len(g.tape) {
			v := int(g.tape[g.pos]) % n
			g.pos++
			return v
		}
		g.Overrun = true
		return 0
	}
	v := int(g.next() % uint64(n))
	g.tape = append(g.tape, uint32(v))
	return v
}

func (g *G) Bool() bool               { return g.Intn(2) == 1 }
func (g *G) Range(lo, hi int) int     { return lo + g.Intn(hi-lo+1) }
func (g *G) Chance(num, den int) bool { return g.Intn(den) < num }
func (g *G) Pick(ss []string) string  { return ss[g.Intn(len(ss))] }
func (g *G) PickInt(xs []int) int     { return xs[g.Intn(len(xs))] }
func (g *G) Seed() uint64             { return uint64(g.Intn(1<<31))<<31 | uint64(g.Intn(1<<31)) }

// Tape returns the choices consumed so far.
func (g *G) Tape() []uint32 {
	if g.replay {
		if g.pos < len(g.tape) {
			return g.tape[:g.pos]
		}
		return g.tape
	}
	return g.tape
}
