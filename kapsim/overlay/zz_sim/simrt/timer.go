package simrt

import (
	"container/heap"
	"time"
)

// Virtual time. All timers of a world live in one heap ordered by (when, seq).

type TimerEntry struct {
	when   int64
	seq    uint64
	idx    int
	period int64
	ch     chan time.Time // Timer/Ticker channel (cap 1), or nil
	f      func()         // AfterFunc
	site   string
	wakeG  *bool // Sleep flag
	active bool
}

type timerHeap []*TimerEntry

func (h timerHeap) Len() int { return len(h) }
func (h timerHeap) Less(i, j int) bool {
	if h[i].when != h[j].when {
		return h[i].when < h[j].when
	}
	return h[i].seq < h[j].seq
}
func (h timerHeap) Swap(i, j int)       { h[i], h[j] = h[j], h[i]; h[i].idx = i; h[j].idx = j }
func (h *timerHeap) Push(x interface{}) { e := x.(*TimerEntry); e.idx = len(*h); *h = append(*h, e) }
func (h *timerHeap) Pop() interface{} {
	old := *h
	n := len(old)
	e := old[n-1]
	*h = old[:n-1]
	e.idx = -1
	return e
}

// Now returns the virtual time.
func Now() time.Time {
	if W == nil {
		return time.Unix(0, Epoch).UTC()
	}
	return time.Unix(0, Epoch+W.now).UTC()
}

// NowNs returns virtual nanoseconds since the world's start.
func NowNs() int64 {
	if W == nil {
		return 0
	}
	return W.now
}

func (w *World) addTimer(e *TimerEntry, d int64) {
	if d < 0 {
		d = 0
	}
	late := int64(0)
	if w.cfg.TimerLateNs > 0 {
		late = int64(w.draw(8, nil)) * w.cfg.TimerLateNs / 8
		if late > 0 {
			w.counters["fault.timer.late"]++
		}
	}
	w.seq++
	e.seq = w.seq
	e.when = w.now + d + late
	e.active = true
	heap.Push(&w.timers, e)
}

func (w *World) delTimer(e *TimerEntry) bool {
	if !e.active {
		return false
	}
	e.active = false
	if e.idx >= 0 && e.idx < len(w.timers) && w.timers[e.idx] == e {
		heap.Remove(&w.timers, e.idx)
	}
	return true
}

func (w *World) fireTimers() {
	for len(w.timers) > 0 && w.timers[0].when <= w.now {
		e := heap.Pop(&w.timers).(*TimerEntry)
		e.active = false
		w.mix(e.seq<<8 | 0x7)
		switch {
		case e.wakeG != nil:
			*e.wakeG = true
		case e.f != nil:
			g := w.newG("afterfunc:"+e.site, -2)
			go w.body(g, e.f, false)
		case e.ch != nil:
			select {
			case e.ch <- time.Unix(0, Epoch+w.now).UTC():
			default:
				w.counters["probe.tick_dropped"]++
			}
		}
		if e.period > 0 {
			w.seq++
			e.seq = w.seq
			e.when += e.period
			if e.when <= w.now {
				// catch up without flooding: next tick after now (time.Ticker drops ticks)
				e.when = w.now + e.period - (w.now-e.when)%e.period
			}
			e.active = true
			heap.Push(&w.timers, e)
		}
	}
}

func (w *World) advanceClock() bool {
	if len(w.timers) == 0 {
		return false
	}
	if w.timers[0].when > w.now {
		w.now = w.timers[0].when
	}
	w.fireTimers()
	return true
}

// Sleep pauses the current goroutine for d of virtual time.
func Sleep(d time.Duration) {
	w := W
	if w == nil {
		return
	}
	if w.dead {
		abandon()
	}
	if d <= 0 {
		Yield()
		return
	}
	flag := false
	e := &TimerEntry{wakeG: &flag}
	w.addTimer(e, int64(d))
	Park("sleep", func() bool { return flag })
}

// NewTimerEntry creates a one-shot (period 0) or periodic timer delivering on a cap-1 channel.
func NewTimerEntry(d, period time.Duration) (*TimerEntry, <-chan time.Time) {
	ch := make(chan time.Time, 1)
	e := &TimerEntry{ch: ch, period: int64(period)}
	if W != nil {
		W.addTimer(e, int64(d))
	}
	return e, ch
}

// NewFuncTimer is time.AfterFunc.
func NewFuncTimer(d time.Duration, site string, f func()) *TimerEntry {
	e := &TimerEntry{f: f, site: site}
	if W != nil {
		W.addTimer(e, int64(d))
	} else {
		if !reaping {
			fatalf("AfterFunc outside a simulated world")
		}
	}
	return e
}

// Stop deactivates the timer; reports whether it was active.
func (e *TimerEntry) Stop() bool {
	if W == nil {
		return false
	}
	return W.delTimer(e)
}

// Reset re-arms the timer; reports whether it had been active.
func (e *TimerEntry) Reset(d time.Duration) bool {
	if W == nil {
		return false
	}
	was := W.delTimer(e)
	W.addTimer(e, int64(d))
	return was
}

// ResetPeriod changes a ticker's period.
func (e *TimerEntry) ResetPeriod(d time.Duration) {
	if W == nil {
		return
	}
	W.delTimer(e)
	e.period = int64(d)
	W.addTimer(e, int64(d))
}

// JumpClock moves the virtual clock forward by d (clock fault). Due timers fire in deadline order.
func JumpClock(d time.Duration) {
	w := W
	if w == nil || d <= 0 {
		return
	}
	w.now += int64(d)
	w.counters["fault.clock.jump"]++
	w.fireTimers()
	Yield()
}
