// Package simrt is the deterministic cooperative scheduler behind kapsim.
//
// Exactly one simulated goroutine executes at any time; all the others are real
// goroutines parked on a private channel. Every scheduling decision, select order,
// map order, pool behaviour and injected fault is drawn from one choice tape that is
// either produced by a seeded PRNG (and recorded) or replayed from a file.
package simrt

import (
	"fmt"
	"os"
	"runtime"
	"runtime/debug"
	"sort"
	"strings"
	"time"
)

// Status of a finished world.
type Status int

const (
	StatusOK       Status = iota // script returned
	StatusPanic                  // a simulated goroutine panicked (process-fatal in the real daemon)
	StatusDeadlock               // nothing runnable, no timers pending, script not finished
	StatusBudget                 // step or virtual-time budget exhausted
	StatusHole                   // instrumentation hole: a goroutine blocked in the Go runtime (watchdog)
	StatusCrash                  // world abandoned on purpose (simulated crash)
)

func (s Status) String() string {
	switch s {
	case StatusOK:
		return "ok"
	case StatusPanic:
		return "panic"
	case StatusDeadlock:
		return "deadlock"
	case StatusBudget:
		return "budget"
	case StatusHole:
		return "hole"
	case StatusCrash:
		return "crash"
	}
	return "?"
}

type gstate int

const (
	gRunnable gstate = iota
	gParked
	gDone
)

// G is one simulated goroutine.
type G struct {
	id      int
	name    string // creation site
	parent  int
	wake    chan struct{}
	state   gstate
	ready   func() bool // when parked: may I run?
	cases   []selCase   // when parked in a channel operation
	chosen  int         // case completed by a peer (rendezvous), -1 if none
	parkSeq uint64
	parkOp  string
	prio    int // PCT priority
	goid    string
	noYield int
	role    string
	idle    bool // parked in WaitIdle
}

func (g *G) ID() int      { return g.id }
func (g *G) Name() string { return g.name }

// Strategy of the scheduler when it is not replaying a tape.
type Strategy int

const (
	StratRandom Strategy = iota
	StratSticky
	StratPCT
	StratStarve
)

func (s Strategy) String() string {
	return [...]string{"random", "sticky", "pct", "starve"}[s]
}

// Config of one world.
type Config struct {
	Seed        uint64
	Tape        []uint32 // replay; nil = draw from PRNG
	Strategy    Strategy
	SwitchProb  float64 // probability of leaving the current goroutine at a yield (random/sticky)
	PCTDepth    int
	StarveRole  string // substring of goroutine names to starve
	StepCostNs  int64  // virtual ns per scheduling step
	MaxSteps    int64
	MaxVirtual  time.Duration
	TimerLateNs int64 // max timer lateness (0 = exact)
	PoolMode    int   // 0 reuse, 1 never reuse, 2 random
	Knobs       map[string]int
	Buggify     map[string]int // site -> fire at n-th visit (1-based); absent = never
	WatchdogSec int
}

// Result of one world.
type Result struct {
	Status      Status
	Steps       int64
	Switches    int64
	VirtualNs   int64
	Tape        []uint32
	TraceHash   uint64
	SwitchSig   uint64
	Goroutines  int
	PanicValue  string
	PanicStack  string
	Parked      []ParkedInfo
	Expecting   string
	Counters    map[string]int64
	BudgetWhy   string
	TapeOverrun bool
}

type ParkedInfo struct {
	ID   int
	Name string
	Op   string
}

// Epoch of the virtual clock.
var Epoch = time.Date(2021, 3, 4, 5, 6, 7, 0, time.UTC).UnixNano()

// World is one simulated execution.
type World struct {
	cfg       Config
	rng       rng
	frng      rng
	tape      []uint32
	tapePos   int
	replay    bool
	overrun   bool
	gs        []*G
	cur       *G
	now       int64
	timers    timerHeap
	seq       uint64
	steps     int64
	switches  int64
	status    Status
	dead      bool
	doneCh    chan struct{}
	trace     uint64
	sig       uint64
	closed    map[uintptr]interface{}
	counters  map[string]int64
	panicV    string
	panicS    string
	expect    []expectation
	budget    string
	fair      bool
	pctChange map[int64]bool
	visits    map[string]int
	lowPrio   int
	data      map[string]interface{}
}

type expectation struct {
	what      string
	stepLimit int64
	timeLimit int64
}

// W is the active world (nil outside a simulation).
var W *World

func fatalf(format string, a ...interface{}) {
	fmt.Fprintf(os.Stderr, "simrt: FATAL: "+format+"\n", a...)
	buf := make([]byte, 1<<20)
	n := runtime.Stack(buf, true)
	os.Stderr.Write(buf[:n])
	os.Exit(2)
}

// Run executes script inside a fresh world and returns when the world ends.
func Run(cfg Config, script func()) *Result {
	if W != nil {
		fatalf("nested worlds")
	}
	if cfg.StepCostNs <= 0 {
		cfg.StepCostNs = 1000
	}
	if cfg.MaxSteps <= 0 {
		cfg.MaxSteps = 2_000_000
	}
	if cfg.MaxVirtual <= 0 {
		cfg.MaxVirtual = 24 * time.Hour
	}
	if cfg.WatchdogSec <= 0 {
		cfg.WatchdogSec = 60
	}
	w := &World{
		cfg:      cfg,
		doneCh:   make(chan struct{}),
		closed:   map[uintptr]interface{}{},
		counters: map[string]int64{},
		visits:   map[string]int{},
		data:     map[string]interface{}{},
		trace:    1469598103934665603,
		sig:      1469598103934665603,
	}
	w.rng.seed(cfg.Seed)
	w.frng.seed(cfg.Seed ^ 0xFA1FA1FA1)
	if cfg.Tape != nil {
		w.replay = true
		w.tape = cfg.Tape
	}
	if cfg.Strategy == StratPCT {
		w.pctChange = map[int64]bool{}
		// change points are drawn lazily relative to a nominal length
	}
	W = w
	g := w.newG("script", -1)
	w.cur = g
	go w.body(g, script, true)
	g.wake <- struct{}{}

	// watchdog on real time: a world that stops making steps has hit a hole
	last := int64(-1)
	tick := time.NewTicker(time.Duration(cfg.WatchdogSec) * time.Second / 2)
	defer tick.Stop()
	stuck := 0
loop:
	for {
		select {
		case <-w.doneCh:
			break loop
		case <-tick.C:
			if w.steps == last {
				stuck++
				if stuck >= 2 {
					buf := make([]byte, 4<<20)
					n := runtime.Stack(buf, true)
					fmt.Fprintf(os.Stderr, "simrt: WATCHDOG: no step for %ds at step %d (goroutine %q blocked in the Go runtime?)\n%s\n",
						cfg.WatchdogSec, w.steps, w.cur.name, buf[:n])
					w.status = StatusHole
					w.dead = true
					break loop
				}
			} else {
				stuck = 0
				last = w.steps
			}
		}
	}
	W = nil
	res := &Result{
		Status:      w.status,
		Steps:       w.steps,
		Switches:    w.switches,
		VirtualNs:   w.now,
		TraceHash:   w.trace,
		SwitchSig:   w.sig,
		Goroutines:  len(w.gs),
		PanicValue:  w.panicV,
		PanicStack:  w.panicS,
		Counters:    w.counters,
		BudgetWhy:   w.budget,
		TapeOverrun: w.overrun,
	}
	if !w.replay {
		res.Tape = w.tape
	} else {
		res.Tape = w.tape
		if w.tapePos < len(w.tape) {
			res.Tape = w.tape[:w.tapePos]
		}
	}
	if len(w.expect) > 0 {
		res.Expecting = w.expect[len(w.expect)-1].what
	}
	for _, g := range w.gs {
		if g.state != gDone {
			res.Parked = append(res.Parked, ParkedInfo{g.id, g.name, g.parkOp})
		}
	}
	if w.status != StatusHole {
		reapAbandoned(w)
	}
	return res
}

func (w *World) newG(name string, parent int) *G {
	g := &G{id: len(w.gs), name: name, parent: parent, wake: make(chan struct{}, 1), chosen: -1}
	if w.cfg.Strategy == StratPCT {
		g.prio = 1000 + int(w.rng.next()%1000000)
	}
	w.gs = append(w.gs, g)
	return g
}

func (w *World) body(g *G, f func(), isScript bool) {
	<-g.wake
	if w.dead {
		// never ran: its world ended first
		<-reapCh
		g.state = gDone
		select {
		case reapDone <- struct{}{}:
		default:
		}
		return
	}
	defer func() {
		if reaping {
			recover()
			g.state = gDone
			select {
			case reapDone <- struct{}{}:
			default:
			}
			return
		}
		if r := recover(); r != nil {
			if w.dead {
				abandon()
			}
			w.panicV = fmt.Sprint(r)
			w.panicS = trimStack(string(debug.Stack()))
			w.finish(StatusPanic)
			g.state = gDone
			return
		}
		if w.dead {
			abandon()
		}
		g.state = gDone
		if isScript {
			w.finish(StatusOK)
			return
		}
		w.mix(uint64(g.id)<<8 | 0xE)
		w.switchFrom(g, "exit")
	}()
	f()
}

// abandon parks the calling goroutine: the world it belonged to is over. Nothing it does from here
// on is part of the simulated execution (a crash means no deferred function runs). After the host has
// extracted the results, abandoned goroutines are reaped one at a time with runtime.Goexit so that
// their memory can be collected; while that happens every simrt operation that would block exits
// the goroutine again and the harness recorders ignore whatever deferred functions do.
func abandon() {
	<-reapCh
	runtime.Goexit()
}

// reapCh is closed... never; reaping hands out one token per abandoned goroutine.
var reapCh = make(chan struct{})

// reaping is true while abandoned goroutines of a finished world are being unwound.
var reaping bool

var reapDone = make(chan struct{}, 1)

func reapAbandoned(w *World) {
	reaping = true
	n := 0
	for _, g := range w.gs {
		if g.state == gDone {
			continue
		}
		// every unfinished goroutine is either parked on its wake channel or in abandon()
		select {
		case g.wake <- struct{}{}:
		default:
		}
		n++
	}
	// goroutines parked in switchFrom wake up, see w.dead and call abandon(); release them all
	deadline := time.After(3 * time.Second)
	released := 0
	for released < n {
		select {
		case reapCh <- struct{}{}:
			// one goroutine took a token and is unwinding; wait for it so that only one runs at a time
			select {
			case <-reapDone:
			case <-deadline:
				if os.Getenv("KAPSIM_STACKS") != "" {
					buf := make([]byte, 1<<20)
					n := runtime.Stack(buf, true)
					fmt.Fprintf(os.Stderr, "---- reap timeout (unwinding) ----\n%s\n", buf[:n])
				}
				reaping = false
				return
			}
			released++
		case <-deadline:
			if os.Getenv("KAPSIM_STACKS") != "" {
				buf := make([]byte, 1<<20)
				n := runtime.Stack(buf, true)
				fmt.Fprintf(os.Stderr, "---- reap timeout (nobody takes a token; %d of %d) ----\n%s\n", released, n, buf[:n])
			}
			reaping = false
			return
		}
	}
	reaping = false
}

func trimStack(s string) string {
	lines := strings.Split(s, "\n")
	if len(lines) > 60 {
		lines = lines[:60]
	}
	return strings.Join(lines, "\n")
}

func (w *World) finish(st Status) {
	if w.dead {
		return
	}
	if (st == StatusDeadlock || st == StatusBudget) && os.Getenv("KAPSIM_STACKS") != "" {
		buf := make([]byte, 1<<20)
		n := runtime.Stack(buf, true)
		fmt.Fprintf(os.Stderr, "---- %v at step %d ----\n%s\n", st, w.steps, buf[:n])
	}
	w.status = st
	w.dead = true
	close(w.doneCh)
}

func (w *World) mix(v uint64) {
	w.trace ^= v
	w.trace *= 1099511628211
}

// draw takes the next choice in [0,n). pref is what the active strategy wants when recording.
func (w *World) draw(n int, pref func() int) int {
	if n <= 1 {
		return 0
	}
	var v int
	if w.fair {
		// After the faults-stop mark every choice comes from a dedicated PRNG stream and is neither recorded
		// nor replayed from the tape: a minimised or perturbed tape can then never turn the fair suffix, under
		// which bounded-liveness oracles are evaluated, into an unfair one. It stays a pure function of the seed.
		if pref != nil {
			return pref() % n
		}
		return int(w.frng.next() % uint64(n))
	}
	if w.replay {
		if w.tapePos < len(w.tape) {
			v = int(w.tape[w.tapePos]) % n
			w.tapePos++
		} else {
			w.overrun = true
			v = 0
		}
	} else {
		if pref != nil {
			v = pref()
		} else {
			v = int(w.rng.next() % uint64(n))
		}
		w.tape = append(w.tape, uint32(v))
	}
	return v
}

func (w *World) eligibleOthers(g *G) []*G {
	var out []*G
	for _, o := range w.gs {
		if o == g {
			continue
		}
		switch o.state {
		case gRunnable:
			out = append(out, o)
		case gParked:
			if o.chosen >= 0 || (o.ready != nil && o.ready()) {
				out = append(out, o)
			}
		}
	}
	return out
}

func (w *World) oneShotPending() bool {
	for _, e := range w.timers {
		if e.period == 0 {
			return true
		}
	}
	return false
}

func (w *World) idleWaiter() *G {
	for _, o := range w.gs {
		if o.state == gParked && o.idle {
			return o
		}
	}
	return nil
}

// WaitIdle parks the caller until no other goroutine can run and no one-shot timer (sleep, After,
// AfterFunc, Timer) is pending: only periodic tickers could still wake anything up, so everything
// already accepted has been carried as far as it can go.
func WaitIdle() {
	w := W
	if w == nil {
		return
	}
	if w.dead {
		abandon()
	}
	g := w.cur
	g.idle = true
	g.state = gParked
	g.ready = func() bool { return false }
	g.parkOp = "waitidle"
	w.seq++
	g.parkSeq = w.seq
	w.mix(uint64(g.id)<<8 | 0x8)
	w.switchFrom(g, "waitidle")
	g.state = gRunnable
	g.ready = nil
	g.idle = false
	g.parkOp = ""
}

func (w *World) starved(g *G) bool {
	return w.cfg.Strategy == StratStarve && !w.fair && w.cfg.StarveRole != "" && strings.Contains(g.name, w.cfg.StarveRole)
}

func (w *World) chooseAmong(els []*G) int {
	// strategy preference among eligible others
	if w.fair {
		return int(w.frng.next() % uint64(len(els)))
	}
	switch w.cfg.Strategy {
	case StratPCT:
		best := 0
		for i, e := range els {
			if e.prio > els[best].prio {
				best = i
			}
		}
		return best
	case StratStarve:
		var ok []int
		for i, e := range els {
			if !w.starved(e) {
				ok = append(ok, i)
			}
		}
		if len(ok) > 0 {
			return ok[int(w.rng.next()%uint64(len(ok)))]
		}
	}
	return int(w.rng.next() % uint64(len(els)))
}

// switchFrom is called by the running goroutine g at a yield (g runnable), a park (g parked) or its exit.
func (w *World) switchFrom(g *G, op string) {
	for {
		if w.dead {
			abandon()
		}
		w.steps++
		w.now += w.cfg.StepCostNs
		if w.steps > w.cfg.MaxSteps {
			w.budget = fmt.Sprintf("steps>%d", w.cfg.MaxSteps)
			w.finish(StatusBudget)
			abandon()
		}
		if w.now > int64(w.cfg.MaxVirtual) {
			w.budget = fmt.Sprintf("virtual>%v", w.cfg.MaxVirtual)
			w.finish(StatusBudget)
			abandon()
		}
		if len(w.expect) > 0 {
			e := w.expect[len(w.expect)-1]
			if w.steps > e.stepLimit || w.now > e.timeLimit {
				w.budget = "expect: " + e.what
				w.finish(StatusBudget)
				abandon()
			}
		}
		w.fireTimers()
		var next *G
		if g.state == gRunnable {
			// yield: 0 = stay
			stay := true
			if g.noYield == 0 {
				var els []*G
				d := w.draw(1<<16, func() int {
					if w.wantSwitch(g) {
						els = w.eligibleOthers(g)
						if len(els) == 0 {
							return 0
						}
						return 1 + w.chooseAmong(els)
					}
					return 0
				})
				if d != 0 {
					if els == nil {
						els = w.eligibleOthers(g)
					}
					if len(els) > 0 {
						next = els[(d-1)%len(els)]
						stay = false
					}
				}
			}
			if stay {
				return
			}
		} else {
			els := w.eligibleOthers(g)
			if g.state == gParked && (g.chosen >= 0 || (g.ready != nil && g.ready())) {
				els = append(els, g)
			}
			if len(els) == 0 {
				// quiescent: first release a goroutine waiting for exactly that
				if ig := w.idleWaiter(); ig != nil && !w.oneShotPending() {
					ig.idle = false
					if ig == g {
						g.state = gRunnable
						g.ready = nil
						return
					}
					els = append(els, ig)
				} else if w.advanceClock() {
					continue
				} else {
					w.finish(StatusDeadlock)
					abandon()
				}
			}
			d := w.draw(len(els), func() int { return w.chooseAmong(els) })
			next = els[d%len(els)]
			if next == g {
				g.state = gRunnable
				g.ready = nil
				return
			}
		}
		if next.state == gParked {
			next.state = gRunnable
			next.ready = nil
		}
		w.switches++
		w.mix(uint64(next.id)<<8 | 0x5)
		w.sig ^= hashStr(next.name) + uint64(len(op))*31 + hashStr(op)
		w.sig *= 1099511628211
		w.cur = next
		next.wake <- struct{}{}
		if g.state == gDone {
			return
		}
		<-g.wake
		if w.dead {
			abandon()
		}
		return
	}
}

func hashStr(s string) uint64 {
	h := uint64(1469598103934665603)
	for i := 0; i < len(s); i++ {
		h ^= uint64(s[i])
		h *= 1099511628211
	}
	return h
}

func (w *World) wantSwitch(g *G) bool {
	if w.fair {
		return w.frng.float() < 0.5
	}
	switch w.cfg.Strategy {
	case StratPCT:
		// switch only at change points: lower own priority
		if w.cfg.PCTDepth > 0 && w.rng.float() < float64(w.cfg.PCTDepth)/2000.0 {
			w.lowPrio--
			g.prio = w.lowPrio
			return true
		}
		// a higher-priority goroutine may have become eligible
		for _, o := range w.gs {
			if o != g && o.prio > g.prio && (o.state == gRunnable || (o.state == gParked && (o.chosen >= 0 || (o.ready != nil && o.ready())))) {
				return true
			}
		}
		return false
	case StratStarve:
		if w.starved(g) {
			return true
		}
		return w.rng.float() < w.cfg.SwitchProb
	default:
		return w.rng.float() < w.cfg.SwitchProb
	}
}

// ---- API used by shims, rewritten code and harness ----

// Active reports whether a simulation is running.
func Active() bool { return W != nil && !W.dead }

// Yield is a scheduling point.
func Yield() {
	w := W
	if w == nil {
		return
	}
	if w.dead {
		abandon()
	}
	g := w.cur
	w.mix(uint64(g.id)<<8 | 0x1)
	w.switchFrom(g, "yield")
}

// Park blocks the current goroutine until ready() holds. ready is evaluated by the scheduler.
func Park(op string, ready func() bool) {
	w := W
	if w == nil {
		if ready() {
			return
		}
		if reaping {
			runtime.Goexit()
		}
		fatalf("blocking operation %q outside a simulated world", op)
	}
	if w.dead {
		abandon()
	}
	g := w.cur
	for !ready() {
		g.state = gParked
		g.ready = ready
		g.parkOp = op
		w.seq++
		g.parkSeq = w.seq
		w.mix(uint64(g.id)<<8 | 0x2)
		w.switchFrom(g, op)
		g.state = gRunnable
		g.ready = nil
	}
	g.parkOp = ""
}

// Go starts a simulated goroutine.
func Go(site string, f func()) {
	w := W
	if w == nil {
		if reaping {
			return
		}
		fatalf("go statement at %s outside a simulated world", site)
	}
	if w.dead {
		abandon()
	}
	g := w.newG(site, w.cur.id)
	go w.body(g, f, false)
	w.mix(uint64(g.id)<<8 | 0x3)
	Yield()
}

// NoYield suppresses voluntary yields while f runs (a storage transaction is one atomic step).
func NoYield(f func()) {
	w := W
	if w == nil {
		f()
		return
	}
	g := w.cur
	g.noYield++
	defer func() { g.noYield-- }()
	f()
}

// Cur returns the running simulated goroutine.
func Cur() *G {
	if W == nil {
		return nil
	}
	return W.cur
}

// Steps returns the global step counter (used to stamp histories).
func Steps() int64 {
	if W == nil {
		return 0
	}
	return W.steps
}

// Stamp returns a strictly increasing event sequence number.
func Stamp() int64 {
	if W == nil {
		return 0
	}
	W.seq++
	return int64(W.seq)
}

// Choose draws a value in [0,n) from the tape (faults, delays, workload decisions made inside the world).
func Choose(n int) int {
	w := W
	if w == nil {
		return 0
	}
	return w.draw(n, nil)
}

// Chance draws a boolean that is true with probability ~ num/den.
func Chance(num, den int) bool { return Choose(den) < num }

// Count increments a named counter (faults fired, probes hit).
func Count(name string) {
	if W != nil {
		W.counters[name]++
	}
}

func CountN(name string, n int64) {
	if W != nil {
		W.counters[name] += n
	}
}

// Knob returns a per-run tuning constant (default = shipped value).
func Knob(name string, def int) int {
	if W == nil {
		return def
	}
	if v, ok := W.cfg.Knobs[name]; ok {
		return v
	}
	return def
}

// Buggify reports whether the cooperative fault at site fires now.
func Buggify(site string) bool {
	w := W
	if w == nil || w.cfg.Buggify == nil {
		return false
	}
	n, ok := w.cfg.Buggify[site]
	if !ok {
		return false
	}
	w.visits[site]++
	if w.visits[site] == n {
		w.counters["buggify."+site]++
		return true
	}
	return false
}

// Fair switches the scheduler to fair random choice (after the faults-stop mark).
func Fair() {
	if W != nil {
		W.fair = true
	}
}

// Expect declares that the enclosed call must return within the budget; returns a func to clear it.
func Expect(what string, steps int64, virtual time.Duration) func() {
	w := W
	if w == nil {
		return func() {}
	}
	w.expect = append(w.expect, expectation{what, w.steps + steps, w.now + int64(virtual)})
	n := len(w.expect)
	return func() {
		if W == w && len(w.expect) >= n {
			w.expect = w.expect[:n-1]
		}
	}
}

// Crash abandons the world at this step boundary (simulated process crash).
func Crash() {
	w := W
	if w == nil {
		return
	}
	w.finish(StatusCrash)
	abandon()
}

// Data is a per-world scratch map for the harness.
func Data() map[string]interface{} {
	if W == nil {
		return nil
	}
	return W.data
}

// LiveGoroutines lists goroutines that have not finished, optionally only descendants of root.
func LiveGoroutines() []ParkedInfo {
	w := W
	if w == nil {
		return nil
	}
	var out []ParkedInfo
	for _, g := range w.gs {
		if g.state != gDone && g != w.cur {
			out = append(out, ParkedInfo{g.id, g.name, g.parkOp})
		}
	}
	return out
}

// GoroutineCount returns the number of goroutines created so far.
func GoroutineCount() int {
	if W == nil {
		return 0
	}
	return len(W.gs)
}

// LiveSince lists unfinished goroutines with id >= from (excluding the caller).
func LiveSince(from int) []ParkedInfo {
	w := W
	if w == nil {
		return nil
	}
	var out []ParkedInfo
	for _, g := range w.gs {
		if g.id >= from && g.state != gDone && g != w.cur {
			out = append(out, ParkedInfo{g.id, g.name, g.parkOp})
		}
	}
	return out
}

// SortedCounterNames helps deterministic printing.
func SortedCounterNames(m map[string]int64) []string {
	var ks []string
	for k := range m {
		ks = append(ks, k)
	}
	sort.Strings(ks)
	return ks
}

// ---- PRNG: splitmix64 ----

type rng struct{ s uint64 }

func (r *rng) seed(s uint64) { r.s = s*0x9E3779B97F4A7C15 + 0x1234567 }
func (r *rng) next() uint64 {
	r.s += 0x9E3779B97F4A7C15
	z := r.s
	z = (z ^ (z >> 30)) * 0xBF58476D1CE4E5B9
	z = (z ^ (z >> 27)) * 0x94D049BB133111EB
	return z ^ (z >> 31)
}
func (r *rng) float() float64 { return float64(r.next()>>11) / float64(1<<53) }
