package simrt

import (
	"runtime"
	"unsafe"
)

// Channel operations on native Go channels that never block in the Go runtime.
//
// Buffered channels: the native buffer is used through non-blocking attempts.
// Unbuffered channels: rendezvous is done by the simulator between the arriving
// goroutine and a parked peer's pending case (the native channel is only used to
// observe close and to get the native panic on send-to-closed).

type selCase interface {
	ptr() uintptr
	isSend() bool
	// try performs the operation if it can complete natively right now.
	try() bool
	// ready reports (without side effects) whether try would succeed.
	ready() bool
	// give/take implement rendezvous with a parked peer.
	giveTo(peer selCase)
	// capacity of the channel
	capacity() int
}

func chanPtr[T any](ch chan T) uintptr { return uintptr(*(*unsafe.Pointer)(unsafe.Pointer(&ch))) }

type RecvCase[T any] struct {
	ch  <-chan T
	p   uintptr
	Val T
	Ok  bool
}

type SendCase[T any] struct {
	ch  chan<- T
	p   uintptr
	val T
}

func NewRecv[T any](ch <-chan T) *RecvCase[T] {
	return &RecvCase[T]{ch: ch, p: uintptr(*(*unsafe.Pointer)(unsafe.Pointer(&ch)))}
}

func NewSend[T any](ch chan<- T, v T) *SendCase[T] {
	return &SendCase[T]{ch: ch, p: uintptr(*(*unsafe.Pointer)(unsafe.Pointer(&ch))), val: v}
}

// NewSendConv is used when the static type of the value differs from the channel's element
// type (a concrete value sent on a channel of interfaces).
func NewSendConv[T any, V any](ch chan<- T, v V) *SendCase[T] {
	return NewSend(ch, conv[T](v))
}

func conv[T any, V any](v V) T {
	var a interface{} = v
	if a == nil {
		var z T
		return z
	}
	t, ok := a.(T)
	if !ok {
		fatalf("simrt: cannot convert %T to channel element type", v)
	}
	return t
}

func (c *RecvCase[T]) ptr() uintptr { return c.p }
func (c *RecvCase[T]) isSend() bool { return false }
func (c *RecvCase[T]) try() bool {
	if c.ch == nil {
		return false
	}
	select {
	case v, ok := <-c.ch:
		c.Val, c.Ok = v, ok
		return true
	default:
		return false
	}
}
func (c *RecvCase[T]) ready() bool {
	if c.ch == nil {
		return false
	}
	if len(c.ch) > 0 {
		return true
	}
	// empty: a non-blocking receive can only succeed if the channel is closed
	select {
	case _, ok := <-c.ch:
		if ok {
			fatalf("simrt: value appeared on an empty channel (uninstrumented sender?)")
		}
		return true
	default:
		return false
	}
}
func (c *RecvCase[T]) giveTo(peer selCase) { fatalf("giveTo on recv case") }
func (c *RecvCase[T]) capacity() int       { return cap(c.ch) }

func (c *SendCase[T]) ptr() uintptr { return c.p }
func (c *SendCase[T]) isSend() bool { return true }
func (c *SendCase[T]) try() bool {
	if c.ch == nil {
		return false
	}
	select {
	case c.ch <- c.val: // panics if closed, as Go does
		return true
	default:
		return false
	}
}
func (c *SendCase[T]) ready() bool {
	if c.ch == nil {
		return false
	}
	if W != nil && W.closed[c.p] != nil {
		return true // try() will panic: send on closed channel
	}
	return len(c.ch) < cap(c.ch)
}
func (c *SendCase[T]) capacity() int { return cap(c.ch) }
func (c *SendCase[T]) giveTo(peer selCase) {
	r, ok := peer.(*RecvCase[T])
	if !ok {
		fatalf("simrt: rendezvous between different element types")
	}
	r.Val, r.Ok = c.val, true
}

// findPeer looks for a parked goroutine with a complementary pending case on the same channel (FIFO).
func (w *World) findPeer(p uintptr, wantSend bool) (*G, int) {
	var best *G
	bi := -1
	for _, o := range w.gs {
		if o.state != gParked || o.chosen >= 0 || o == w.cur || len(o.cases) == 0 {
			continue
		}
		for i, c := range o.cases {
			if c.ptr() == p && c.isSend() == wantSend {
				if best == nil || o.parkSeq < best.parkSeq {
					best, bi = o, i
				}
				break
			}
		}
	}
	return best, bi
}

// attempt tries one case for the running goroutine.
func (w *World) attempt(c selCase) bool {
	if c.ptr() == 0 {
		return false
	}
	if c.try() {
		return true
	}
	// rendezvous with a parked peer. A sender may hand its value to a parked receiver only on an
	// unbuffered channel: on a buffered one a failed try means the buffer is full, and the parked
	// receiver (not yet scheduled) must take the buffered values first. A receiver whose try failed
	// found the buffer empty, so the oldest parked sender holds the next value in both cases.
	if c.isSend() && c.capacity() > 0 {
		return false
	}
	peer, i := w.findPeer(c.ptr(), !c.isSend())
	if peer == nil {
		return false
	}
	if c.isSend() {
		c.giveTo(peer.cases[i])
	} else {
		peer.cases[i].giveTo(c)
	}
	peer.chosen = i
	return true
}

func anyReady(cases []selCase) func() bool {
	return func() bool {
		for _, c := range cases {
			if c.ready() {
				return true
			}
		}
		return false
	}
}

// Select runs a select statement. It returns the index of the case that proceeded, or -1 for default.
func Select(hasDefault bool, cases ...selCase) int {
	w := W
	if w == nil {
		// outside a world: only non-blocking attempts are possible
		for i, c := range cases {
			if c.try() {
				return i
			}
		}
		if hasDefault {
			return -1
		}
		if reaping {
			runtime.Goexit()
		}
		fatalf("blocking select outside a simulated world")
	}
	if w.dead {
		abandon()
	}
	g := w.cur
	w.mix(uint64(g.id)<<8 | 0x4)
	w.switchFrom(g, "chan") // scheduling point before the operation
	n := len(cases)
	for {
		// order of evaluation of ready cases is a choice
		start := 0
		if n > 1 {
			// only draw when more than one case could proceed
			cnt := 0
			for _, c := range cases {
				if c.ready() || w.hasPeer(c) {
					cnt++
				}
			}
			if cnt > 1 {
				start = w.draw(n, nil)
			}
		}
		for k := 0; k < n; k++ {
			i := (start + k) % n
			if w.attempt(cases[i]) {
				return i
			}
		}
		if hasDefault {
			return -1
		}
		// park
		g.state = gParked
		g.cases = cases
		g.chosen = -1
		g.ready = anyReady(cases)
		g.parkOp = "chan"
		w.seq++
		g.parkSeq = w.seq
		w.mix(uint64(g.id)<<8 | 0x6)
		w.switchFrom(g, "chanpark")
		g.state = gRunnable
		g.ready = nil
		g.cases = nil
		g.parkOp = ""
		if g.chosen >= 0 {
			i := g.chosen
			g.chosen = -1
			return i
		}
	}
}

func (w *World) hasPeer(c selCase) bool {
	if c.ptr() == 0 || (c.isSend() && c.capacity() > 0) {
		return false
	}
	p, _ := w.findPeer(c.ptr(), !c.isSend())
	return p != nil
}

// Send is `ch <- v`.
func Send[T any](ch chan<- T, v T) {
	Select(false, NewSend(ch, v))
}

// SendConv is `ch <- v` where v's static type is not identical to the element type.
func SendConv[T any, V any](ch chan<- T, v V) {
	Select(false, NewSendConv(ch, v))
}

// Recv is `<-ch`.
func Recv[T any](ch <-chan T) T {
	c := NewRecv(ch)
	Select(false, c)
	return c.Val
}

// Recv2 is `v, ok := <-ch`.
func Recv2[T any](ch <-chan T) (T, bool) {
	c := NewRecv(ch)
	Select(false, c)
	return c.Val, c.Ok
}

// Close is close(ch).
func Close[T any](ch chan<- T) {
	if W != nil {
		if W.dead {
			abandon()
		}
		Yield()
		W.closed[uintptr(*(*unsafe.Pointer)(unsafe.Pointer(&ch)))] = ch // keeps the channel alive: no address reuse
	}
	close(ch)
}
