package simrt

import (
	"fmt"
	"sort"
)

// MapKeys returns the keys of m in an order that is a function of the choice tape only:
// canonical order, rotated and possibly reversed by two draws (a subset of the orders Go allows).
func MapKeys[M ~map[K]V, K comparable, V any](m M) []K {
	n := len(m)
	if n == 0 {
		return nil
	}
	keys := make([]K, 0, n)
	for k := range m {
		keys = append(keys, k)
	}
	if n == 1 {
		return keys
	}
	sortKeys(keys)
	if W == nil || W.dead {
		return keys
	}
	rot := W.draw(n, nil)
	rev := W.draw(2, nil)
	out := make([]K, n)
	for i := 0; i < n; i++ {
		j := (i + rot) % n
		if rev == 1 {
			j = (rot - i + 2*n) % n
		}
		out[i] = keys[j]
	}
	return out
}

// Ordinal gives objects that cannot be ordered by value (pointers, channels) a per-world
// creation-independent but deterministic rank: the first time an object is seen it gets the
// next number. It is only deterministic if the first sighting happens in deterministic order,
// which holds when every iteration that could see it first goes through MapKeys.
type ordKey struct{ v interface{} }

func sortKeys[K comparable](keys []K) {
	var zero K
	switch any(zero).(type) {
	case string:
		sort.Slice(keys, func(i, j int) bool { return any(keys[i]).(string) < any(keys[j]).(string) })
		return
	case int:
		sort.Slice(keys, func(i, j int) bool { return any(keys[i]).(int) < any(keys[j]).(int) })
		return
	case int64:
		sort.Slice(keys, func(i, j int) bool { return any(keys[i]).(int64) < any(keys[j]).(int64) })
		return
	}
	// generic: order by a printed form; pointer-like keys are ordered by their registered ordinal
	strs := make([]string, len(keys))
	for i, k := range keys {
		strs[i] = keyString(any(k))
	}
	idx := make([]int, len(keys))
	for i := range idx {
		idx[i] = i
	}
	sort.SliceStable(idx, func(a, b int) bool { return strs[idx[a]] < strs[idx[b]] })
	out := make([]K, len(keys))
	for i, j := range idx {
		out[i] = keys[j]
	}
	copy(keys, out)
}

// KeyStringer lets instrumented or harness types provide a deterministic ordering key.
type KeyStringer interface{ SimKey() string }

func keyString(k interface{}) string {
	switch v := k.(type) {
	case KeyStringer:
		return v.SimKey()
	case fmt.Stringer:
		// Stringers of value types are fine; pointer receivers may print addresses, handled below
		s := safeString(v)
		return s
	}
	return fmt.Sprintf("%#v", k)
}

func safeString(v fmt.Stringer) (s string) {
	defer func() {
		if recover() != nil {
			s = fmt.Sprintf("%T", v)
		}
	}()
	return v.String()
}

// PoolGet decides whether a sync.Pool hands back a pooled object (true) or behaves as if empty.
func PoolReuse() bool {
	w := W
	if w == nil {
		return true
	}
	switch w.cfg.PoolMode {
	case 1:
		w.counters["fault.pool.drop"]++
		return false
	case 2:
		if w.draw(2, nil) == 1 {
			w.counters["fault.pool.drop"]++
			return false
		}
	}
	return true
}

// CloneMap copies a map without drawing from the tape (order is irrelevant for a copy).
func CloneMap[K comparable, V any](m map[K]V) map[K]V {
	out := make(map[K]V, len(m))
	for k, v := range m {
		out[k] = v
	}
	return out
}

// Keys returns the keys of m in canonical (sorted) order without drawing from the tape.
func Keys[K comparable, V any](m map[K]V) []K {
	keys := make([]K, 0, len(m))
	for k := range m {
		keys = append(keys, k)
	}
	sortKeys(keys)
	return keys
}

// LiveDescendants lists unfinished goroutines whose creator chain leads to a goroutine with id in [a,b).
func LiveDescendants(a, b int) []ParkedInfo {
	w := W
	if w == nil {
		return nil
	}
	var out []ParkedInfo
	for _, g := range w.gs {
		if g.state == gDone || g == w.cur {
			continue
		}
		for x := g; x != nil; {
			if x.id >= a && x.id < b {
				out = append(out, ParkedInfo{g.id, g.name, g.parkOp})
				break
			}
			if x.parent < 0 || x.parent >= len(w.gs) {
				break
			}
			x = w.gs[x.parent]
		}
	}
	return out
}
