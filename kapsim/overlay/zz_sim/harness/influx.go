package harness

import (
	"context"
	"errors"
	"time"

	"github.com/influxdata/flux"
	"github.com/influxdata/kapacitor/influxdb"
	"github.com/influxdata/kapacitor/zz_sim/simrt"
)

// FakeInflux is the InfluxDB service + client seam: it records queries and writes and answers
// from a script, with seeded latency and errors.
type FakeInflux struct {
	Queries []RecQuery
	Writes  []RecWrite
	// Plan
	WriteLatency func() time.Duration // virtual
	WriteErr     func() error
	QueryLatency func() time.Duration
	QueryErr     func() error
	Answer       func(q influxdb.Query) *influxdb.Response
}

type RecQuery struct {
	Stamp   int64
	AtNs    int64
	DoneNs  int64 // virtual time at which the answer (or error) was handed back
	Command string
	DB      string
	Cluster string
}

type RecWrite struct {
	Stamp  int64
	DB, RP string
	Points []influxdb.Point
	Err    bool
}

func (f *FakeInflux) NewNamedClient(name string) (influxdb.Client, error) {
	if name == "unreachable" {
		return nil, errors.New("no such InfluxDB cluster: unreachable")
	}
	return &fakeClient{f: f, cluster: name}, nil
}

type fakeClient struct {
	f       *FakeInflux
	cluster string
}

func (c *fakeClient) Ping(ctx context.Context) (time.Duration, string, error) { return 0, "sim", nil }

func (c *fakeClient) Write(bp influxdb.BatchPoints) error {
	if !simrt.Active() {
		return errors.New("simulated process is gone")
	}
	if c.f.WriteLatency != nil {
		if d := c.f.WriteLatency(); d > 0 {
			time.Sleep(d)
			simrt.Count("fault.influx.slow")
		}
	}
	var err error
	if c.f.WriteErr != nil {
		err = c.f.WriteErr()
	}
	w := RecWrite{Stamp: simrt.Stamp(), DB: bp.Database(), RP: bp.RetentionPolicy(), Err: err != nil}
	w.Points = append(w.Points, bp.Points()...)
	c.f.Writes = append(c.f.Writes, w)
	if err != nil {
		simrt.Count("fault.influx.write_err")
	}
	return err
}

func (c *fakeClient) WriteV2(w influxdb.FluxWrite) error { return errors.New("not simulated") }

func (c *fakeClient) Query(q influxdb.Query) (*influxdb.Response, error) {
	if !simrt.Active() {
		return nil, errors.New("simulated process is gone")
	}
	c.f.Queries = append(c.f.Queries, RecQuery{Stamp: simrt.Stamp(), AtNs: simrt.NowNs(), Command: q.Command, DB: q.Database, Cluster: c.cluster})
	qi := len(c.f.Queries) - 1
	if c.f.QueryLatency != nil {
		if d := c.f.QueryLatency(); d > 0 {
			time.Sleep(d)
			simrt.Count("fault.influx.slow")
		}
	}
	if simrt.Active() && qi < len(c.f.Queries) {
		c.f.Queries[qi].DoneNs = simrt.NowNs()
	}
	if c.f.QueryErr != nil {
		if err := c.f.QueryErr(); err != nil {
			simrt.Count("fault.influx.query_err")
			return nil, err
		}
	}
	if c.f.Answer != nil {
		return c.f.Answer(q), nil
	}
	return &influxdb.Response{}, nil
}

func (c *fakeClient) QueryFlux(q influxdb.FluxQuery) (flux.ResultIterator, error) {
	return nil, errors.New("flux is not simulated")
}
func (c *fakeClient) QueryFluxResponse(q influxdb.FluxQuery) (*influxdb.Response, error) {
	return nil, errors.New("flux is not simulated")
}
func (c *fakeClient) CreateBucketV2(bucket string, org string, orgID string) error {
	return errors.New("not simulated")
}
