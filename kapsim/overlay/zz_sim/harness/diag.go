package harness

import (
	"sort"
	"sync"

	"github.com/influxdata/kapacitor"
	"github.com/influxdata/kapacitor/alert"
	"github.com/influxdata/kapacitor/edge"
	"github.com/influxdata/kapacitor/keyvalue"
	"github.com/influxdata/kapacitor/models"
	"github.com/influxdata/kapacitor/zz_sim/simrt"
)

// Obs is one observation at a |log() sink.
type Obs struct {
	Stamp int64
	Point edge.PointMessage         // stream
	Batch edge.BufferedBatchMessage // batch
	Copy  *PointCopy                // deep copy at observation time (stream)
	BCopy *BatchCopy
}

// PointCopy is a deep, plain copy of a point.
type PointCopy struct {
	Name, DB, RP string
	Group        string
	ByName       bool
	Dims         []string
	Tags         map[string]string
	Fields       map[string]interface{}
	TimeNs       int64
}

type BatchCopy struct {
	Name   string
	Group  string
	ByName bool
	Dims   []string
	Tags   map[string]string
	TMaxNs int64
	Points []PointCopy
}

func CopyPoint(p edge.PointMessage) *PointCopy {
	c := &PointCopy{
		Name: p.Name(), DB: p.Database(), RP: p.RetentionPolicy(),
		Group:  string(p.GroupID()),
		ByName: p.Dimensions().ByName,
		Dims:   append([]string(nil), p.Dimensions().TagNames...),
		Tags:   simrt.CloneMap(map[string]string(p.Tags())),
		Fields: simrt.CloneMap(map[string]interface{}(p.Fields())),
		TimeNs: p.Time().UnixNano(),
	}
	return c
}

// Sinks records what every |log() node saw, keyed by the log node's prefix.
type Sinks struct {
	mu  sync.Mutex
	obs map[string][]Obs
	// Delay, if set, is called on every observation (slow sink).
	Delay func(key string)
	Errs  []string
}

func NewSinks() *Sinks { return &Sinks{obs: map[string][]Obs{}} }

func (s *Sinks) add(key string, o Obs) {
	if !simrt.Active() {
		return
	}
	o.Stamp = simrt.Stamp()
	s.obs[key] = append(s.obs[key], o)
	if s.Delay != nil {
		s.Delay(key)
	}
}

func (s *Sinks) Get(key string) []Obs { return s.obs[key] }

func (s *Sinks) Keys() []string {
	ks := simrt.Keys(s.obs)
	sort.Strings(ks)
	return ks
}

// KapDiag wraps the real diagnostic handler and captures log-node data and node errors.
type KapDiag struct {
	inner kapacitor.Diagnostic
	sinks *Sinks
}

func (k *KapDiag) WithTaskContext(task string) kapacitor.TaskDiagnostic {
	return &taskDiag{inner: k.inner.WithTaskContext(task), sinks: k.sinks, task: task}
}
func (k *KapDiag) WithTaskMasterContext(tm string) kapacitor.Diagnostic {
	return &KapDiag{inner: k.inner.WithTaskMasterContext(tm), sinks: k.sinks}
}
func (k *KapDiag) WithNodeContext(node string) kapacitor.NodeDiagnostic {
	return &nodeDiag{NodeDiagnostic: k.inner.WithNodeContext(node), sinks: k.sinks, node: node}
}
func (k *KapDiag) WithEdgeContext(task, parent, child string) kapacitor.EdgeDiagnostic {
	return k.inner.WithEdgeContext(task, parent, child)
}
func (k *KapDiag) TaskMasterOpened()      { k.inner.TaskMasterOpened() }
func (k *KapDiag) TaskMasterClosed()      { k.inner.TaskMasterClosed() }
func (k *KapDiag) StartingTask(id string) { k.inner.StartingTask(id) }
func (k *KapDiag) StartedTask(id string)  { k.inner.StartedTask(id) }
func (k *KapDiag) StoppedTask(id string)  { k.inner.StoppedTask(id) }
func (k *KapDiag) StoppedTaskWithError(id string, err error) {
	k.sinks.Errs = append(k.sinks.Errs, "task "+id+": "+err.Error())
	k.inner.StoppedTaskWithError(id, err)
}
func (k *KapDiag) TaskMasterDot(d string) {}

type taskDiag struct {
	inner kapacitor.TaskDiagnostic
	sinks *Sinks
	task  string
}

func (t *taskDiag) WithNodeContext(node string) kapacitor.NodeDiagnostic {
	return &nodeDiag{NodeDiagnostic: t.inner.WithNodeContext(node), sinks: t.sinks, node: t.task + ":" + node}
}
func (t *taskDiag) Error(msg string, err error, ctx ...keyvalue.T) {
	t.sinks.Errs = append(t.sinks.Errs, "task "+t.task+": "+msg+": "+errStr(err))
	t.inner.Error(msg, err, ctx...)
}

func errStr(err error) string {
	if err == nil {
		return "<nil>"
	}
	return err.Error()
}

type nodeDiag struct {
	kapacitor.NodeDiagnostic
	sinks *Sinks
	node  string
}

func (n *nodeDiag) Error(msg string, err error, ctx ...keyvalue.T) {
	n.sinks.Errs = append(n.sinks.Errs, n.node+": "+msg+": "+errStr(err))
	simrt.Count("obs.node_error")
	n.NodeDiagnostic.Error(msg, err, ctx...)
}

func (n *nodeDiag) AlertTriggered(level alert.Level, id string, message string, rows *models.Row) {}

func (n *nodeDiag) LogPointData(key, prefix string, data edge.PointMessage) {
	n.sinks.add(prefix, Obs{Point: data, Copy: CopyPoint(data)})
}

func (n *nodeDiag) LogBatchData(key, prefix string, data edge.BufferedBatchMessage) {
	n.sinks.add(prefix, Obs{Batch: data, BCopy: CopyBufferedBatch(data)})
}

// CopyBufferedBatch deep-copies a batch.
func CopyBufferedBatch(b edge.BufferedBatchMessage) *BatchCopy {
	bg := b.Begin()
	c := &BatchCopy{
		Name: bg.Name(), Group: string(bg.GroupID()),
		ByName: bg.Dimensions().ByName,
		Dims:   append([]string(nil), bg.Dimensions().TagNames...),
		Tags:   simrt.CloneMap(map[string]string(bg.Tags())),
		TMaxNs: bg.Time().UnixNano(),
	}
	for _, p := range b.Points() {
		pc := PointCopy{Name: bg.Name(), Group: c.Group, Tags: simrt.CloneMap(map[string]string(p.Tags())), Fields: simrt.CloneMap(map[string]interface{}(p.Fields())), TimeNs: p.Time().UnixNano()}
		c.Points = append(c.Points, pc)
	}
	return c
}
