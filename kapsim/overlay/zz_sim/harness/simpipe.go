package harness

import (
	"errors"
	"io"
	"time"

	"github.com/influxdata/kapacitor/zz_sim/simrt"
)

// SimPipe is a simulated unidirectional byte stream (a socket or process pipe half):
// reads return seeded fragments, writes and reads can be delayed on the virtual clock, and the
// stream can stall, break or be corrupted at a seeded byte offset.
type SimPipe struct {
	Name string
	buf  []byte
	// state
	wclosed bool
	rclosed bool
	written int
	read    int
	// plan
	Fragment   bool          // reads return 1..n bytes chosen from the tape
	DelayEvery int           // every n-th read sleeps Delay
	Delay      time.Duration // virtual
	StallAt    int           // after this many bytes have been read, reads block for StallFor (0 = never)
	StallFor   time.Duration
	BreakAt    int // after this many bytes have been read, reads fail with BreakErr (0 = never); io.EOF = peer closed
	BreakErr   error
	CorruptAt  int // flip the byte at this offset (1-based; 0 = never)
	reads      int
	stalled    bool
}

var ErrPipeBroken = errors.New("simulated connection reset by peer")

func (p *SimPipe) Write(b []byte) (int, error) {
	if !simrt.Active() {
		return 0, io.ErrClosedPipe
	}
	simrt.Yield()
	if p.wclosed || p.rclosed {
		return 0, io.ErrClosedPipe
	}
	for _, c := range b {
		p.written++
		if p.CorruptAt > 0 && p.written == p.CorruptAt {
			c ^= 0x5A
			simrt.Count("fault.pipe.corrupt")
		}
		p.buf = append(p.buf, c)
	}
	return len(b), nil
}

func (p *SimPipe) Close() error {
	p.wclosed = true
	return nil
}

// CloseRead is called by the reading side.
func (p *SimPipe) CloseRead() error {
	p.rclosed = true
	return nil
}

func (p *SimPipe) Read(b []byte) (int, error) {
	if !simrt.Active() {
		return 0, io.ErrClosedPipe
	}
	if len(b) == 0 {
		return 0, nil
	}
	p.reads++
	if p.DelayEvery > 0 && p.reads%p.DelayEvery == 0 && p.Delay > 0 {
		time.Sleep(p.Delay)
		simrt.Count("fault.pipe.delay")
	}
	if p.StallAt > 0 && p.read >= p.StallAt && !p.stalled {
		p.stalled = true
		simrt.Count("fault.pipe.stall")
		time.Sleep(p.StallFor)
	}
	if p.BreakAt > 0 && p.read >= p.BreakAt {
		simrt.Count("fault.pipe.close")
		if p.BreakErr == nil {
			return 0, ErrPipeBroken
		}
		return 0, p.BreakErr
	}
	simrt.Park("pipe.read:"+p.Name, func() bool { return len(p.buf) > 0 || p.wclosed || p.rclosed })
	if p.rclosed {
		return 0, io.ErrClosedPipe
	}
	if len(p.buf) == 0 {
		return 0, io.EOF
	}
	n := len(p.buf)
	if n > len(b) {
		n = len(b)
	}
	if p.BreakAt > 0 && p.read+n > p.BreakAt {
		n = p.BreakAt - p.read
	}
	if p.StallAt > 0 && !p.stalled && p.read+n > p.StallAt {
		n = p.StallAt - p.read
	}
	if p.Fragment && n > 1 {
		n = 1 + simrt.Choose(n)
		simrt.Count("fault.pipe.fragment")
	}
	if n <= 0 {
		n = 1
	}
	copy(b, p.buf[:n])
	p.buf = p.buf[n:]
	p.read += n
	return n, nil
}

// ReadSide adapts the pipe for a reader that closes its end.
type ReadSide struct{ P *SimPipe }

func (r ReadSide) Read(b []byte) (int, error) { return r.P.Read(b) }
func (r ReadSide) Close() error               { return r.P.CloseRead() }
