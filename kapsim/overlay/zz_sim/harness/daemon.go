// Package harness wires a simulated Kapacitor daemon out of the real packages (DESIGN.md 2.3).
package harness

import (
	"bytes"
	"fmt"
	"io"
	"net/http"
	"net/http/httptest"
	"strings"
	"time"

	"github.com/influxdata/kapacitor"
	"github.com/influxdata/kapacitor/pipeline"
	"github.com/influxdata/kapacitor/server/vars"
	alertservice "github.com/influxdata/kapacitor/services/alert"
	"github.com/influxdata/kapacitor/services/diagnostic"
	"github.com/influxdata/kapacitor/services/httpd"
	"github.com/influxdata/kapacitor/services/task_store"
)

// capBuffer keeps the first N bytes of the daemon's log (errors) for failure reports.
type capBuffer struct {
	buf bytes.Buffer
	max int
}

func (c *capBuffer) Write(p []byte) (int, error) {
	if c.buf.Len() < c.max {
		n := c.max - c.buf.Len()
		if n > len(p) {
			n = len(p)
		}
		c.buf.Write(p[:n])
	}
	return len(p), nil
}

type DaemonOpts struct {
	Store         *SimStorage // nil: fresh in-memory-ish store on a new file
	PersistTopics bool
	WithTaskStore bool
	TopicBuffer   int
	UDF           kapacitor.UDFService
	Influx        *FakeInflux
	LogLevel      string
}

// Daemon is one life of the simulated process.
type Daemon struct {
	Diag      *diagnostic.Service
	Kap       *KapDiag
	TM        *kapacitor.TaskMaster
	HTTPD     *httpd.Service
	Alert     *alertservice.Service
	Store     *SimStorage
	TaskStore *task_store.Service
	Lookup    *kapacitor.TaskMasterLookup
	Sinks     *Sinks
	Log       *capBuffer
	Influx    *FakeInflux
}

type noSnapshots struct{}

func (noSnapshots) SaveSnapshot(string, *kapacitor.TaskSnapshot) error { return nil }
func (noSnapshots) HasSnapshot(string) bool                            { return false }
func (noSnapshots) LoadSnapshot(string) (*kapacitor.TaskSnapshot, error) {
	return nil, fmt.Errorf("no snapshot")
}

type deadman struct{}

func (deadman) Interval() time.Duration { return 10 * time.Second }
func (deadman) Threshold() float64      { return 0 }
func (deadman) Id() string              { return "{{ .Name }}" }
func (deadman) Message() string         { return "deadman" }
func (deadman) Global() bool            { return false }

var _ pipeline.DeadmanService = deadman{}

// NewDaemon opens the services in the order of server.Server.
func NewDaemon(o DaemonOpts) (*Daemon, error) {
	d := &Daemon{Log: &capBuffer{max: 64 << 10}, Sinks: NewSinks()}
	lvl := o.LogLevel
	if lvl == "" {
		lvl = "ERROR"
	}
	dc := diagnostic.NewConfig()
	dc.Level = lvl
	d.Diag = diagnostic.NewService(dc, io.Discard, d.Log)
	if err := d.Diag.Open(); err != nil {
		return nil, err
	}
	d.Kap = &KapDiag{inner: d.Diag.NewKapacitorHandler(), sinks: d.Sinks}

	hc := httpd.NewConfig()
	hc.BindAddress = ":0"
	hc.LogEnabled = false
	hc.GZIP = false
	d.HTTPD = httpd.NewService(hc, "localhost", nil, d.Diag.NewHTTPDHandler())

	d.Store = o.Store
	if d.Store == nil {
		s, err := NewSimStorage("")
		if err != nil {
			return nil, err
		}
		d.Store = s
	}
	d.Store.diag = d.Diag.NewStorageHandler()

	d.TM = kapacitor.NewTaskMaster(kapacitor.MainTaskMaster, vars.Info, d.Kap)
	d.TM.HTTPDService = d.HTTPD
	d.TM.DeadmanService = deadman{}
	d.TM.TaskStore = noSnapshots{}
	d.TM.DefaultRetentionPolicy = "autogen"
	d.TM.UDFService = o.UDF
	if o.Influx != nil {
		d.Influx = o.Influx
		d.TM.InfluxDBService = o.Influx
	}
	d.Lookup = kapacitor.NewTaskMasterLookup()
	d.Lookup.Set(d.TM)
	d.HTTPD.Handler.PointsWriter = d.TM

	d.Alert = alertservice.NewService(d.Diag.NewAlertServiceHandler(), nil, o.TopicBuffer)
	d.Alert.HTTPDService = d.HTTPD
	d.Alert.StorageService = d.Store
	d.Alert.PersistTopics = o.PersistTopics
	d.TM.AlertService = d.Alert

	if o.WithTaskStore {
		ts := task_store.NewService(task_store.NewConfig(), d.Diag.NewTaskStoreHandler())
		ts.StorageService = d.Store
		ts.HTTPDService = d.HTTPD
		ts.TaskMasterLookup = d.Lookup
		d.TaskStore = ts
		d.TM.TaskStore = ts
	}

	// open in server order: storage (already), alert, task master, task store
	if err := d.Alert.Open(); err != nil {
		return nil, fmt.Errorf("alert open: %w", err)
	}
	if err := d.TM.Open(); err != nil {
		return nil, fmt.Errorf("tm open: %w", err)
	}
	if d.TaskStore != nil {
		if err := d.TaskStore.Open(); err != nil {
			return nil, fmt.Errorf("task_store open: %w", err)
		}
	}
	return d, nil
}

// Shutdown closes the services in reverse order, like server.Server.Close.
func (d *Daemon) Shutdown() error {
	var first error
	if d.TaskStore != nil {
		if err := d.TaskStore.Close(); err != nil && first == nil {
			first = err
		}
	}
	if err := d.TM.Close(); err != nil && first == nil {
		first = err
	}
	if err := d.Alert.Close(); err != nil && first == nil {
		first = err
	}
	return first
}

// Do performs an in-process HTTP request against the real handler.
func (d *Daemon) Do(method, path, body string) (int, string) {
	var rd io.Reader
	if body != "" {
		rd = strings.NewReader(body)
	}
	req := httptest.NewRequest(method, path, rd)
	rec := httptest.NewRecorder()
	d.HTTPD.Handler.ServeHTTP(rec, req)
	return rec.Code, rec.Body.String()
}

// WriteLine posts line protocol to the write endpoint; returns the HTTP status.
func (d *Daemon) WriteLine(db, rp, lines string) int {
	code, _ := d.Do(http.MethodPost, "/kapacitor/v1/write?db="+db+"&rp="+rp+"&precision=n", lines)
	return code
}

// Define creates a task on the task master (no task store).
func (d *Daemon) Define(id, script string, tt kapacitor.TaskType, dbrps []kapacitor.DBRP) (*kapacitor.Task, error) {
	return d.TM.NewTask(id, script, tt, dbrps, 0, nil)
}

// LogHead returns the first n bytes of the daemon's error log.
func (d *Daemon) LogHead(n int) string {
	b := d.Log.buf.Bytes()
	if len(b) > n {
		b = b[:n]
	}
	return string(b)
}
