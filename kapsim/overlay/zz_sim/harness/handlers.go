package harness

import (
	"github.com/influxdata/kapacitor/alert"
	"github.com/influxdata/kapacitor/zz_sim/simrt"
)

// RecHandler records every event it is handed, in order.
type RecHandler struct {
	Name   string
	Events []RecEvent
	Delay  func() // slow handler
}

type RecEvent struct {
	Stamp    int64
	Topic    string
	ID       string
	Level    alert.Level
	Prev     alert.Level
	TimeNs   int64
	Duration int64
	Message  string
	Details  string
}

func (h *RecHandler) Handle(e alert.Event) {
	if !simrt.Active() {
		return
	}
	if h.Delay != nil {
		h.Delay()
	}
	h.Events = append(h.Events, RecEvent{
		Stamp: simrt.Stamp(), Topic: e.Topic, ID: e.State.ID, Level: e.State.Level, Prev: e.PreviousState().Level,
		TimeNs: e.State.Time.UnixNano(), Duration: int64(e.State.Duration), Message: e.State.Message, Details: e.State.Details,
	})
}
