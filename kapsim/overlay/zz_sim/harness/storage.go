package harness

import (
	"errors"
	"fmt"
	"io"
	"os"
	"path/filepath"
	"sync"

	"github.com/influxdata/kapacitor/services/storage"
	"github.com/influxdata/kapacitor/zz_sim/simrt"
	bolt "go.etcd.io/bbolt"
)

// SimStorage is the harness-owned StorageService: the real Bolt adapter on a real bbolt file,
// wrapped so that every transaction boundary is a scheduling / crash / fault point (DESIGN 3.5).
type SimStorage struct {
	path   string
	db     *bolt.DB
	diag   storage.Diagnostic
	vers   storage.Versions
	lock   sync.Mutex // simulator-visible mirror of bbolt's writer lock (readers run beside the writer, as in bbolt)
	stores map[string]storage.Interface

	// Fault plan (all 0 = none). Counters are global over the store's life.
	FailWriteAt int // n-th Put/Delete/Commit (1-based) returns an error
	FailBeginAt int // n-th Update cannot begin
	CrashAt     int // crash at boundary index (1-based): odd = before k-th commit, even = after
	Writes      int
	Updates     int
	Boundaries  int
	Commits     int
	OnCrash     func() // called right before the world is abandoned (durable copy taken)
	CrashCopy   string // path of the durable copy taken at the crash
	BoundaryLog []string
	ScratchDir  string
}

var ErrInjected = errors.New("injected storage failure: no space left on device")

var scratchSeq int

// ScratchRoot is where Bolt files of simulated daemons live.
func ScratchRoot() string {
	if d := os.Getenv("KAPSIM_DATA"); d != "" {
		return d
	}
	if st, err := os.Stat("/dev/shm"); err == nil && st.IsDir() {
		return filepath.Join("/dev/shm", fmt.Sprintf("kapsim-%d", os.Getpid()))
	}
	return filepath.Join(os.TempDir(), fmt.Sprintf("kapsim-%d", os.Getpid()))
}

// NewSimStorage opens (or creates) a Bolt file. path=="" creates a fresh one.
func NewSimStorage(path string) (*SimStorage, error) {
	if path == "" {
		scratchSeq++
		dir := ScratchRoot()
		if err := os.MkdirAll(dir, 0755); err != nil {
			return nil, err
		}
		path = filepath.Join(dir, fmt.Sprintf("kap-%d.db", scratchSeq))
		os.Remove(path)
	}
	db, err := bolt.Open(path, 0600, &bolt.Options{NoSync: true, NoFreelistSync: true, NoGrowSync: true})
	if err != nil {
		return nil, err
	}
	s := &SimStorage{path: path, db: db, stores: map[string]storage.Interface{}}
	s.vers = storage.NewVersions(s.Store("versions"))
	return s, nil
}

func (s *SimStorage) Store(ns string) storage.Interface {
	if st, ok := s.stores[ns]; ok {
		return st
	}
	st := &simStore{s: s, inner: storage.NewBolt(s.db, []byte(ns))}
	s.stores[ns] = st
	return st
}
func (s *SimStorage) Register(name string, store storage.StoreActioner) {}
func (s *SimStorage) Versions() storage.Versions                        { return s.vers }
func (s *SimStorage) Diagnostic() storage.Diagnostic                    { return s.diag }
func (s *SimStorage) Path() string                                      { return s.path }
func (s *SimStorage) CloseBolt() error                                  { return s.db.Close() }
func (s *SimStorage) Close() error                                      { return s.db.Close() }
func (s *SimStorage) DB() *bolt.DB                                      { return s.db }

// DurableCopy copies the Bolt file as it stands now (call only at a step boundary, outside a tx).
func (s *SimStorage) DurableCopy() (string, error) {
	scratchSeq++
	dst := filepath.Join(filepath.Dir(s.path), fmt.Sprintf("kap-%d.db", scratchSeq))
	in, err := os.Open(s.path)
	if err != nil {
		return "", err
	}
	defer in.Close()
	out, err := os.Create(dst)
	if err != nil {
		return "", err
	}
	if _, err := io.Copy(out, in); err != nil {
		out.Close()
		return "", err
	}
	return dst, out.Close()
}

func (s *SimStorage) boundary(kind string) {
	s.Boundaries++
	if s.CrashAt > 0 && s.Boundaries == s.CrashAt {
		cp, err := s.DurableCopy()
		if err != nil {
			panic("harness: durable copy failed: " + err.Error())
		}
		s.CrashCopy = cp
		simrt.Count("fault.crash")
		simrt.Count("probe.crash_" + kind)
		if s.OnCrash != nil {
			s.OnCrash()
		}
		simrt.Crash()
	}
}

type simStore struct {
	s     *SimStorage
	inner *storage.Bolt
}

func (st *simStore) Store(buckets ...[]byte) storage.Interface {
	return &simStore{s: st.s, inner: st.inner.Store(buckets...).(*storage.Bolt)}
}

// ErrDeadWorld is returned to code that is still unwinding after its world ended (crash or end of run):
// durable state can no longer be touched.
var ErrDeadWorld = errors.New("simulated process is gone")

func (st *simStore) View(f func(storage.ReadOnlyTx) error) error {
	s := st.s
	if !simrt.Active() {
		return ErrDeadWorld
	}
	_ = s
	simrt.Yield()
	var err error
	simrt.NoYield(func() {
		err = st.inner.View(f)
	})
	return err
}

func (st *simStore) Update(f func(storage.Tx) error) error {
	s := st.s
	if !simrt.Active() {
		return ErrDeadWorld
	}
	simrt.Yield()
	s.lock.Lock()
	defer s.lock.Unlock()
	s.Updates++
	if s.FailBeginAt > 0 && s.Updates == s.FailBeginAt {
		simrt.Count("fault.storage.begin_err")
		return ErrInjected
	}
	s.boundary("before_commit")
	var err error
	committed := false
	simrt.NoYield(func() {
		var tx storage.Tx
		tx, err = st.inner.BeginTx()
		if err != nil {
			return
		}
		defer tx.Rollback()
		w := &faultTx{Tx: tx, s: s}
		if err = f(w); err != nil {
			return
		}
		if err = w.Commit(); err == nil {
			committed = true
		}
	})
	if committed {
		s.Commits++
		s.boundary("after_commit")
	}
	return err
}

// faultTx injects write failures below Kapacitor's storage code.
type faultTx struct {
	storage.Tx
	s *SimStorage
}

func (t *faultTx) hit(kind string) bool {
	t.s.Writes++
	if t.s.FailWriteAt > 0 && t.s.Writes == t.s.FailWriteAt {
		simrt.Count("fault.storage." + kind + "_err")
		return true
	}
	return false
}

func (t *faultTx) Put(key string, value []byte) error {
	if t.hit("put") {
		return ErrInjected
	}
	return t.Tx.Put(key, value)
}

func (t *faultTx) Delete(key string) error {
	if t.hit("delete") {
		return ErrInjected
	}
	return t.Tx.Delete(key)
}

func (t *faultTx) Commit() error {
	if t.hit("commit") {
		return ErrInjected
	}
	return t.Tx.Commit()
}

func (t *faultTx) Bucket(name []byte) storage.Tx {
	b := t.Tx.Bucket(name)
	if b == nil {
		return nil
	}
	return &faultTx{Tx: b, s: t.s}
}
