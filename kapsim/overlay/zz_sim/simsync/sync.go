// Package simsync mirrors package sync on top of the kapsim scheduler: every operation is a
// scheduling point and contended waiters are parked in the simulator, never in the Go runtime.
package simsync

import (
	"sync"

	"github.com/influxdata/kapacitor/zz_sim/simrt"
)

type Locker = sync.Locker
type Map = sync.Map

// Mutex

type Mutex struct {
	locked bool
}

func (m *Mutex) Lock() {
	simrt.Yield()
	if m.locked {
		simrt.Count("probe.mutex_contended")
		simrt.Park("mutex", func() bool { return !m.locked })
	}
	m.locked = true
}

func (m *Mutex) TryLock() bool {
	simrt.Yield()
	if m.locked {
		return false
	}
	m.locked = true
	return true
}

func (m *Mutex) Unlock() {
	if !m.locked {
		panic("sync: unlock of unlocked mutex")
	}
	m.locked = false
}

// RWMutex (a pending writer blocks new readers, as in package sync)

type RWMutex struct {
	writer  bool
	readers int
	wwait   int
}

func (m *RWMutex) Lock() {
	simrt.Yield()
	if m.writer || m.readers > 0 {
		simrt.Count("probe.rwmutex_contended")
		m.wwait++
		simrt.Park("rwmutex.lock", func() bool { return !m.writer && m.readers == 0 })
		m.wwait--
	}
	m.writer = true
}

func (m *RWMutex) TryLock() bool {
	simrt.Yield()
	if m.writer || m.readers > 0 {
		return false
	}
	m.writer = true
	return true
}

func (m *RWMutex) Unlock() {
	if !m.writer {
		panic("sync: Unlock of unlocked RWMutex")
	}
	m.writer = false
}

func (m *RWMutex) RLock() {
	simrt.Yield()
	if m.writer || m.wwait > 0 {
		simrt.Count("probe.rwmutex_contended")
		simrt.Park("rwmutex.rlock", func() bool { return !m.writer && m.wwait == 0 })
	}
	m.readers++
}

func (m *RWMutex) TryRLock() bool {
	simrt.Yield()
	if m.writer || m.wwait > 0 {
		return false
	}
	m.readers++
	return true
}

func (m *RWMutex) RUnlock() {
	if m.readers <= 0 {
		panic("sync: RUnlock of unlocked RWMutex")
	}
	m.readers--
}

type rlocker RWMutex

func (r *rlocker) Lock()   { (*RWMutex)(r).RLock() }
func (r *rlocker) Unlock() { (*RWMutex)(r).RUnlock() }

func (m *RWMutex) RLocker() Locker { return (*rlocker)(m) }

// WaitGroup

type WaitGroup struct {
	n int
}

func (wg *WaitGroup) Add(delta int) {
	wg.n += delta
	if wg.n < 0 {
		panic("sync: negative WaitGroup counter")
	}
}

func (wg *WaitGroup) Done() { wg.Add(-1) }

func (wg *WaitGroup) Wait() {
	simrt.Yield()
	if wg.n > 0 {
		simrt.Park("waitgroup", func() bool { return wg.n == 0 })
	}
}

func (wg *WaitGroup) Go(f func()) {
	wg.Add(1)
	simrt.Go("waitgroup.Go", func() {
		defer wg.Done()
		f()
	})
}

// Once

type Once struct {
	done    bool
	running bool
}

func (o *Once) Do(f func()) {
	if o.done {
		return
	}
	if o.running {
		simrt.Park("once", func() bool { return o.done })
		return
	}
	o.running = true
	defer func() {
		o.done = true
		o.running = false
	}()
	f()
}

// Cond

type Cond struct {
	L       Locker
	tickets uint64
	served  uint64 // tickets < served are released
	woken   map[uint64]bool
}

func NewCond(l Locker) *Cond { return &Cond{L: l} }

func (c *Cond) Wait() {
	t := c.tickets
	c.tickets++
	c.L.Unlock()
	simrt.Park("cond", func() bool { return t < c.served })
	c.L.Lock()
}

func (c *Cond) Signal() {
	if c.served < c.tickets {
		c.served++
	}
}

func (c *Cond) Broadcast() { c.served = c.tickets }

// Pool

type Pool struct {
	New   func() interface{}
	items []interface{}
}

func (p *Pool) Get() interface{} {
	if n := len(p.items); n > 0 && simrt.PoolReuse() {
		x := p.items[n-1]
		p.items = p.items[:n-1]
		return x
	}
	if p.New != nil {
		return p.New()
	}
	return nil
}

func (p *Pool) Put(x interface{}) {
	if x == nil {
		return
	}
	if len(p.items) < 64 {
		p.items = append(p.items, x)
	}
}

// OnceFunc etc. are thin wrappers.
func OnceFunc(f func()) func() {
	var o Once
	return func() { o.Do(f) }
}
