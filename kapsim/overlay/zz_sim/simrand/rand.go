// Package simrand mirrors the global functions of math/rand on the world's choice tape.
package simrand

import (
	"math/rand"

	"github.com/influxdata/kapacitor/zz_sim/simrt"
)

type Rand = rand.Rand
type Source = rand.Source
type Source64 = rand.Source64
type Zipf = rand.Zipf

var New = rand.New
var NewZipf = rand.NewZipf

type tapeSource struct{}

func (tapeSource) Int63() int64 {
	return int64(simrt.Choose(1<<31))<<32 | int64(simrt.Choose(1<<31))<<1 | int64(simrt.Choose(2))
}
func (tapeSource) Seed(int64) {}

// NewSource returns a tape-backed source regardless of the seed: seeds usually come from the real clock.
func NewSource(seed int64) Source { return tapeSource{} }

var global = rand.New(tapeSource{})

func Seed(int64)                         {}
func Int63() int64                       { return global.Int63() }
func Uint32() uint32                     { return global.Uint32() }
func Uint64() uint64                     { return global.Uint64() }
func Int31() int32                       { return global.Int31() }
func Int() int                           { return global.Int() }
func Int63n(n int64) int64               { return global.Int63n(n) }
func Int31n(n int32) int32               { return global.Int31n(n) }
func Intn(n int) int                     { return global.Intn(n) }
func Float64() float64                   { return global.Float64() }
func Float32() float32                   { return global.Float32() }
func Perm(n int) []int                   { return global.Perm(n) }
func Shuffle(n int, swap func(i, j int)) { global.Shuffle(n, swap) }
func NormFloat64() float64               { return global.NormFloat64() }
func ExpFloat64() float64                { return global.ExpFloat64() }
func Read(p []byte) (int, error)         { return global.Read(p) }
