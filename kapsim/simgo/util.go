package simgo

import (
	"fmt"
	"go/ast"
	"go/parser"
	"go/token"
)

func parseStmts(src string) ([]ast.Stmt, error) {
	fset := token.NewFileSet()
	f, err := parser.ParseFile(fset, "buggify.go", "package p\nfunc _() {\n"+src+"\n}", 0)
	if err != nil {
		return nil, err
	}
	fd, ok := f.Decls[0].(*ast.FuncDecl)
	if !ok {
		return nil, fmt.Errorf("no func")
	}
	// strip positions so the printer lays the statements out afresh
	ast.Inspect(fd.Body, func(n ast.Node) bool { return true })
	return fd.Body.List, nil
}
