package simgo

import (
	"fmt"
	"io"
	"io/fs"
	"os"
	"os/exec"
	"path/filepath"
	"strings"
)

// CopyTree copies src to dst, skipping .git, test files and build output.
func CopyTree(src, dst string, skip func(rel string, d fs.DirEntry) bool) error {
	return filepath.WalkDir(src, func(p string, d fs.DirEntry, err error) error {
		if err != nil {
			return err
		}
		rel, _ := filepath.Rel(src, p)
		if rel == "." {
			return os.MkdirAll(dst, 0755)
		}
		if skip != nil && skip(rel, d) {
			if d.IsDir() {
				return filepath.SkipDir
			}
			return nil
		}
		target := filepath.Join(dst, rel)
		if d.IsDir() {
			return os.MkdirAll(target, 0755)
		}
		if !d.Type().IsRegular() {
			return nil
		}
		in, err := os.Open(p)
		if err != nil {
			return err
		}
		defer in.Close()
		out, err := os.OpenFile(target, os.O_CREATE|os.O_WRONLY|os.O_TRUNC, 0644)
		if err != nil {
			return err
		}
		if _, err := io.Copy(out, in); err != nil {
			out.Close()
			return err
		}
		return out.Close()
	})
}

func repoSkip(rel string, d fs.DirEntry) bool {
	base := filepath.Base(rel)
	if d.IsDir() {
		switch base {
		case ".git", "testdata", "node_modules":
			return true
		}
		if rel == "zz_sim" || rel == "zz_deps" {
			return true
		}
		return false
	}
	if strings.HasSuffix(base, "_test.go") {
		return true
	}
	return false
}

// Prepare builds an instrumented scratch module at dir from repo + overlay and returns rewrite stats.
func Prepare(repo, overlay, dir, goBin string, env []string, log func(string, ...interface{})) (Stats, error) {
	var st Stats
	if err := CopyTree(repo, dir, repoSkip); err != nil {
		return st, fmt.Errorf("copy repo: %w", err)
	}
	if err := CopyTree(overlay, dir, nil); err != nil {
		return st, fmt.Errorf("copy overlay: %w", err)
	}
	// third-party sources that must be instrumented or vendored into the scratch module
	modcache, err := goEnv(goBin, env, "GOMODCACHE")
	if err != nil {
		return st, err
	}
	deps := []struct{ from, to string }{
		{"github.com/benbjohnson/clock@v1.1.0", "zz_deps/clock"},
		{"github.com/anishathalye/porcupine@v1.3.0", "zz_deps/porcupine"},
	}
	for _, d := range deps {
		src := filepath.Join(modcache, d.from)
		if _, err := os.Stat(src); err != nil {
			return st, fmt.Errorf("module cache lacks %s: %w", d.from, err)
		}
		err := CopyTree(src, filepath.Join(dir, d.to), func(rel string, e fs.DirEntry) bool {
			if e.IsDir() {
				return rel != "." && rel != "visualization" // top-level package (+ porcupine's embedded assets) only
			}
			if strings.HasPrefix(rel, "visualization/") {
				return false
			}
			return !strings.HasSuffix(rel, ".go") || strings.HasSuffix(rel, "_test.go")
		})
		if err != nil {
			return st, err
		}
	}
	opts := &Options{
		InScope: func(p string) bool {
			return p == "github.com/influxdata/kapacitor" || strings.HasPrefix(p, "github.com/influxdata/kapacitor/")
		},
		Exempt: func(p string) bool {
			for _, e := range []string{"simrt", "simsync", "simtime", "simctx", "simrand"} {
				if p == simPrefix+e {
					return true
				}
			}
			return strings.HasPrefix(p, "github.com/influxdata/kapacitor/zz_deps/porcupine")
		},
		Knobs: []Knob{
			{"github.com/influxdata/kapacitor", "defaultEdgeBufferSize"},
			{"github.com/influxdata/kapacitor/alert", "MinimumEventBufferSize"},
			{"github.com/influxdata/kapacitor/alert", "DefaultEventBufferSize"},
		},
	}
	importSwap["github.com/benbjohnson/clock"] = [2]string{"github.com/influxdata/kapacitor/zz_deps/clock", "clock"}
	patterns := []string{"./zz_sim/cmd/worker", "./zz_deps/clock"}
	st, err = Instrument(dir, env, patterns, opts, log)
	return st, err
}

func goEnv(goBin string, env []string, key string) (string, error) {
	cmd := exec.Command(goBin, "env", key)
	cmd.Env = env
	out, err := cmd.Output()
	if err != nil {
		return "", fmt.Errorf("go env %s: %w", key, err)
	}
	return strings.TrimSpace(string(out)), nil
}
