// Package simgo instruments a scratch copy of the kapacitor tree for the kapsim scheduler.
// See DESIGN.md 3.2 for the list of transformations (R1-R10).
package simgo

import (
	"bytes"
	"fmt"
	"go/ast"
	"go/constant"
	"go/format"
	"go/token"
	"go/types"
	"os"
	"path/filepath"
	"sort"
	"strconv"
	"strings"

	"golang.org/x/tools/go/ast/astutil"
	"golang.org/x/tools/go/packages"
)

const simPrefix = "github.com/influxdata/kapacitor/zz_sim/"
const rtName = "simrt__"

var importSwap = map[string][2]string{
	"sync":      {simPrefix + "simsync", "sync"},
	"time":      {simPrefix + "simtime", "time"},
	"context":   {simPrefix + "simctx", "context"},
	"math/rand": {simPrefix + "simrand", "rand"},
}

// Stats counts rewritten sites.
type Stats struct {
	Files, Go, Send, Recv, Select, RangeChan, RangeMap, Close, Imports, Knobs, Buggify int
	PtrKeyMaps                                                                         []string
	Warnings                                                                           []string
}

func (s *Stats) Add(o Stats) {
	s.Files += o.Files
	s.Go += o.Go
	s.Send += o.Send
	s.Recv += o.Recv
	s.Select += o.Select
	s.RangeChan += o.RangeChan
	s.RangeMap += o.RangeMap
	s.Close += o.Close
	s.Imports += o.Imports
	s.Knobs += o.Knobs
	s.Buggify += o.Buggify
	s.PtrKeyMaps = append(s.PtrKeyMaps, o.PtrKeyMaps...)
	s.Warnings = append(s.Warnings, o.Warnings...)
}

// Knob describes a package-level constant whose uses become simrt.Knob(name, const).
type Knob struct{ Pkg, Const string }

// BuggifySite inserts `if simrt.Buggify(name) { return <err> }` at the top of a function.
type BuggifySite struct {
	Pkg, Recv, Func string
	Name            string
	Stmt            string // Go source of the statement to insert at the top of the loop/function
}

type Options struct {
	Exempt  func(pkgPath string) bool // packages not rewritten (the simulator itself)
	InScope func(pkgPath string) bool
	Knobs   []Knob
	Buggify []BuggifySite
	RelRoot string // paths in site strings are relative to this
}

type rewriter struct {
	pkg     *packages.Package
	fset    *token.FileSet
	info    *types.Info
	opts    *Options
	st      Stats
	skip    map[ast.Node]bool
	fixLbl  map[*ast.BlockStmt]ast.Stmt // block produced by us -> inner statement that must carry a label
	tmp     int
	needRT  bool
	relFile string
	errs    []string
}

func (r *rewriter) name(p string) *ast.Ident {
	r.tmp++
	return ast.NewIdent(fmt.Sprintf("_sim%s%d", p, r.tmp))
}

func (r *rewriter) rt(fn string) ast.Expr {
	r.needRT = true
	return &ast.SelectorExpr{X: ast.NewIdent(rtName), Sel: ast.NewIdent(fn)}
}

func (r *rewriter) call(fn string, args ...ast.Expr) *ast.CallExpr {
	return &ast.CallExpr{Fun: r.rt(fn), Args: args}
}

func (r *rewriter) site(pos token.Pos) ast.Expr {
	p := r.fset.Position(pos)
	return &ast.BasicLit{Kind: token.STRING, Value: strconv.Quote(fmt.Sprintf("%s:%d", r.relFile, p.Line))}
}

func (r *rewriter) errorf(pos token.Pos, format string, a ...interface{}) {
	r.errs = append(r.errs, fmt.Sprintf("%s: %s", r.fset.Position(pos), fmt.Sprintf(format, a...)))
}

func isBlank(e ast.Expr) bool {
	id, ok := e.(*ast.Ident)
	return ok && id.Name == "_"
}

func (r *rewriter) isConstOrNil(e ast.Expr) bool {
	tv, ok := r.info.Types[e]
	if !ok {
		return false
	}
	if tv.Value != nil || tv.IsNil() {
		return true
	}
	if b, ok := tv.Type.(*types.Basic); ok && b.Info()&types.IsUntyped != 0 {
		return true
	}
	return false
}

func (r *rewriter) sendHelper(chExpr, val ast.Expr, exact, conv string) string {
	ct := r.info.TypeOf(chExpr)
	if ct == nil {
		return exact
	}
	ch, ok := ct.Underlying().(*types.Chan)
	if !ok {
		return exact
	}
	if r.isConstOrNil(val) {
		return exact
	}
	vt := r.info.TypeOf(val)
	if vt == nil || types.Identical(vt, ch.Elem()) {
		return exact
	}
	return conv
}

// collectSkips marks the communication operations of select clauses: they are rewritten as part of
// the select, not on their own.
func (r *rewriter) collectSkips(f *ast.File) {
	ast.Inspect(f, func(n ast.Node) bool {
		sel, ok := n.(*ast.SelectStmt)
		if !ok {
			return true
		}
		for _, c := range sel.Body.List {
			cc := c.(*ast.CommClause)
			switch s := cc.Comm.(type) {
			case *ast.SendStmt:
				r.skip[s] = true
			case *ast.ExprStmt:
				r.skip[unparen(s.X)] = true
			case *ast.AssignStmt:
				r.skip[unparen(s.Rhs[0])] = true
			}
		}
		return true
	})
}

func unparen(e ast.Expr) ast.Expr {
	for {
		p, ok := e.(*ast.ParenExpr)
		if !ok {
			return e
		}
		e = p.X
	}
}

func (r *rewriter) rewriteFile(f *ast.File) {
	r.collectSkips(f)
	knobObjs := map[types.Object]string{}
	for _, k := range r.opts.Knobs {
		if k.Pkg == r.pkg.PkgPath {
			if o := r.pkg.Types.Scope().Lookup(k.Const); o != nil {
				knobObjs[o] = k.Const
			}
		}
	}
	// knobs exported from other packages
	for _, k := range r.opts.Knobs {
		if k.Pkg != r.pkg.PkgPath {
			for _, imp := range r.pkg.Imports {
				if imp.PkgPath == k.Pkg && imp.Types != nil {
					if o := imp.Types.Scope().Lookup(k.Const); o != nil {
						knobObjs[o] = k.Const
					}
				}
			}
		}
	}

	astutil.Apply(f, nil, func(c *astutil.Cursor) bool {
		switch n := c.Node().(type) {
		case *ast.GoStmt:
			c.Replace(r.rewriteGo(n))
			r.st.Go++
		case *ast.SendStmt:
			if r.skip[n] {
				return true
			}
			h := r.sendHelper(n.Chan, n.Value, "Send", "SendConv")
			c.Replace(&ast.ExprStmt{X: r.call(h, n.Chan, n.Value)})
			r.st.Send++
		case *ast.UnaryExpr:
			if n.Op != token.ARROW || r.skip[n] {
				return true
			}
			fn := "Recv"
			switch p := c.Parent().(type) {
			case *ast.AssignStmt:
				if len(p.Lhs) == 2 && len(p.Rhs) == 1 {
					fn = "Recv2"
				}
			case *ast.ValueSpec:
				if len(p.Names) == 2 && len(p.Values) == 1 {
					fn = "Recv2"
				}
			}
			c.Replace(r.call(fn, n.X))
			r.st.Recv++
		case *ast.SelectStmt:
			c.Replace(r.rewriteSelect(n))
			r.st.Select++
		case *ast.RangeStmt:
			t := r.info.TypeOf(n.X)
			if t == nil {
				r.errorf(n.Pos(), "range over expression of unknown type")
				return true
			}
			switch u := t.Underlying().(type) {
			case *types.Chan:
				c.Replace(r.rewriteRangeChan(n))
				r.st.RangeChan++
			case *types.Map:
				if n.Key == nil && n.Value == nil {
					return true
				}
				switch u.Key().Underlying().(type) {
				case *types.Pointer, *types.Chan, *types.Interface, *types.Signature:
					r.st.PtrKeyMaps = append(r.st.PtrKeyMaps, fmt.Sprintf("%s: map key %s", r.fset.Position(n.Pos()), u.Key()))
				}
				c.Replace(r.rewriteRangeMap(n))
				r.st.RangeMap++
			case *types.TypeParam:
				r.errorf(n.Pos(), "range over type parameter not supported")
			}
		case *ast.LabeledStmt:
			if b, ok := n.Stmt.(*ast.BlockStmt); ok {
				if inner, ok := r.fixLbl[b]; ok {
					// L: { pre...; inner }  ==>  { pre...; L: inner }
					for i, s := range b.List {
						if s == inner {
							b.List[i] = &ast.LabeledStmt{Label: n.Label, Colon: n.Colon, Stmt: inner}
						}
					}
					c.Replace(b)
				}
			}
		case *ast.CallExpr:
			if id, ok := n.Fun.(*ast.Ident); ok && id.Name == "close" && len(n.Args) == 1 {
				if _, ok := r.info.Uses[id].(*types.Builtin); ok {
					n.Fun = r.rt("Close")
					r.st.Close++
				}
			}
		case *ast.Ident:
			if len(knobObjs) > 0 {
				if o := r.info.Uses[n]; o != nil {
					if name, ok := knobObjs[o]; ok {
						if _, isSel := c.Parent().(*ast.SelectorExpr); isSel {
							return true // handled at the selector
						}
						c.Replace(r.call("Knob", &ast.BasicLit{Kind: token.STRING, Value: strconv.Quote(name)}, ast.NewIdent(n.Name)))
						r.st.Knobs++
					}
				}
			}
		case *ast.SelectorExpr:
			if len(knobObjs) > 0 {
				if o := r.info.Uses[n.Sel]; o != nil {
					if name, ok := knobObjs[o]; ok {
						cp := &ast.SelectorExpr{X: n.X, Sel: ast.NewIdent(n.Sel.Name)}
						c.Replace(r.call("Knob", &ast.BasicLit{Kind: token.STRING, Value: strconv.Quote(name)}, cp))
						r.st.Knobs++
					}
				}
			}
		}
		return true
	})
}

func (r *rewriter) rewriteGo(n *ast.GoStmt) ast.Stmt {
	call := n.Call
	if fl, ok := call.Fun.(*ast.FuncLit); ok && len(call.Args) == 0 {
		return &ast.ExprStmt{X: r.call("Go", r.site(n.Pos()), fl)}
	}
	var pre []ast.Stmt
	fun := call.Fun
	if _, isLit := fun.(*ast.FuncLit); !isLit {
		simple := false
		switch f := fun.(type) {
		case *ast.Ident:
			if _, ok := r.info.Uses[f].(*types.Func); ok {
				simple = true // package-level function: nothing to evaluate
			}
			if _, ok := r.info.Uses[f].(*types.Builtin); ok {
				simple = true
			}
		case *ast.SelectorExpr:
			if id, ok := f.X.(*ast.Ident); ok {
				if _, ok := r.info.Uses[id].(*types.PkgName); ok {
					simple = true
				}
			}
		}
		if !simple {
			fv := r.name("f")
			pre = append(pre, &ast.AssignStmt{Lhs: []ast.Expr{fv}, Tok: token.DEFINE, Rhs: []ast.Expr{fun}})
			fun = fv
		}
	}
	args := make([]ast.Expr, len(call.Args))
	for i, a := range call.Args {
		if _, isLit := a.(*ast.FuncLit); isLit || r.isConstOrNil(a) {
			args[i] = a
			continue
		}
		av := r.name("a")
		pre = append(pre, &ast.AssignStmt{Lhs: []ast.Expr{av}, Tok: token.DEFINE, Rhs: []ast.Expr{a}})
		args[i] = av
	}
	inner := &ast.CallExpr{Fun: fun, Args: args, Ellipsis: call.Ellipsis}
	lit := &ast.FuncLit{
		Type: &ast.FuncType{Params: &ast.FieldList{}},
		Body: &ast.BlockStmt{List: []ast.Stmt{&ast.ExprStmt{X: inner}}},
	}
	goCall := &ast.ExprStmt{X: r.call("Go", r.site(n.Pos()), lit)}
	if len(pre) == 0 {
		return goCall
	}
	return &ast.BlockStmt{List: append(pre, goCall)}
}

func (r *rewriter) rewriteSelect(n *ast.SelectStmt) ast.Stmt {
	var pre []ast.Stmt
	var clauses []ast.Stmt
	var caseVars []ast.Expr
	hasDefault := false
	idx := 0
	for _, c := range n.Body.List {
		cc := c.(*ast.CommClause)
		if cc.Comm == nil {
			hasDefault = true
			clauses = append(clauses, &ast.CaseClause{List: nil, Body: cc.Body})
			continue
		}
		kv := r.name("k")
		var body []ast.Stmt
		switch s := cc.Comm.(type) {
		case *ast.SendStmt:
			h := r.sendHelper(s.Chan, s.Value, "NewSend", "NewSendConv")
			pre = append(pre, &ast.AssignStmt{Lhs: []ast.Expr{kv}, Tok: token.DEFINE, Rhs: []ast.Expr{r.call(h, s.Chan, s.Value)}})
		case *ast.ExprStmt:
			u := unparen(s.X).(*ast.UnaryExpr)
			pre = append(pre, &ast.AssignStmt{Lhs: []ast.Expr{kv}, Tok: token.DEFINE, Rhs: []ast.Expr{r.call("NewRecv", u.X)}})
		case *ast.AssignStmt:
			u := unparen(s.Rhs[0]).(*ast.UnaryExpr)
			pre = append(pre, &ast.AssignStmt{Lhs: []ast.Expr{kv}, Tok: token.DEFINE, Rhs: []ast.Expr{r.call("NewRecv", u.X)}})
			allBlank := true
			for _, l := range s.Lhs {
				if !isBlank(l) {
					allBlank = false
				}
			}
			if !allBlank {
				rhs := []ast.Expr{&ast.SelectorExpr{X: ast.NewIdent(kv.Name), Sel: ast.NewIdent("Val")}}
				if len(s.Lhs) == 2 {
					rhs = append(rhs, &ast.SelectorExpr{X: ast.NewIdent(kv.Name), Sel: ast.NewIdent("Ok")})
				}
				body = append(body, &ast.AssignStmt{Lhs: s.Lhs, Tok: s.Tok, Rhs: rhs})
			}
		}
		caseVars = append(caseVars, ast.NewIdent(kv.Name))
		body = append(body, cc.Body...)
		clauses = append(clauses, &ast.CaseClause{
			List: []ast.Expr{&ast.BasicLit{Kind: token.INT, Value: strconv.Itoa(idx)}},
			Body: body,
		})
		idx++
	}
	hd := "false"
	if hasDefault {
		hd = "true"
	} else {
		// keeps the statement terminating when every clause returns
		clauses = append(clauses, &ast.CaseClause{List: nil, Body: []ast.Stmt{
			&ast.ExprStmt{X: &ast.CallExpr{Fun: ast.NewIdent("panic"), Args: []ast.Expr{&ast.BasicLit{Kind: token.STRING, Value: `"simrt: select returned an impossible case"`}}}},
		}})
	}
	args := append([]ast.Expr{ast.NewIdent(hd)}, caseVars...)
	sw := &ast.SwitchStmt{Tag: r.call("Select", args...), Body: &ast.BlockStmt{List: clauses}}
	if len(pre) == 0 {
		return sw
	}
	b := &ast.BlockStmt{List: append(pre, sw)}
	r.fixLbl[b] = sw
	return b
}

func (r *rewriter) rewriteRangeChan(n *ast.RangeStmt) ast.Stmt {
	cv := r.name("c")
	okv := r.name("ok")
	var recv ast.Stmt
	var extra []ast.Stmt
	lhs0 := ast.Expr(ast.NewIdent("_"))
	if n.Key != nil && !isBlank(n.Key) {
		if n.Tok == token.DEFINE {
			lhs0 = n.Key
		} else {
			tv := r.name("v")
			lhs0 = tv
			extra = append(extra, &ast.AssignStmt{Lhs: []ast.Expr{n.Key}, Tok: token.ASSIGN, Rhs: []ast.Expr{ast.NewIdent(tv.Name)}})
		}
	}
	recv = &ast.AssignStmt{Lhs: []ast.Expr{lhs0, okv}, Tok: token.DEFINE, Rhs: []ast.Expr{r.call("Recv2", ast.NewIdent(cv.Name))}}
	brk := &ast.IfStmt{Cond: &ast.UnaryExpr{Op: token.NOT, X: ast.NewIdent(okv.Name)}, Body: &ast.BlockStmt{List: []ast.Stmt{&ast.BranchStmt{Tok: token.BREAK}}}}
	body := []ast.Stmt{recv, brk}
	body = append(body, extra...)
	body = append(body, n.Body)
	loop := &ast.ForStmt{Body: &ast.BlockStmt{List: body}}
	b := &ast.BlockStmt{List: []ast.Stmt{
		&ast.AssignStmt{Lhs: []ast.Expr{cv}, Tok: token.DEFINE, Rhs: []ast.Expr{n.X}},
		loop,
	}}
	r.fixLbl[b] = loop
	return b
}

func (r *rewriter) rewriteRangeMap(n *ast.RangeStmt) ast.Stmt {
	mv := r.name("m")
	kv := r.name("key")
	vv := r.name("val")
	okv := r.name("ok")
	hasKey := n.Key != nil && !isBlank(n.Key)
	hasVal := n.Value != nil && !isBlank(n.Value)
	var body []ast.Stmt
	lookupLhs0 := ast.Expr(ast.NewIdent("_"))
	if hasVal {
		lookupLhs0 = vv
	}
	body = append(body,
		&ast.AssignStmt{Lhs: []ast.Expr{lookupLhs0, okv}, Tok: token.DEFINE,
			Rhs: []ast.Expr{&ast.IndexExpr{X: ast.NewIdent(mv.Name), Index: ast.NewIdent(kv.Name)}}},
		&ast.IfStmt{Cond: &ast.UnaryExpr{Op: token.NOT, X: ast.NewIdent(okv.Name)}, Body: &ast.BlockStmt{List: []ast.Stmt{&ast.BranchStmt{Tok: token.CONTINUE}}}},
	)
	var lhs, rhs []ast.Expr
	if hasKey {
		lhs = append(lhs, n.Key)
		rhs = append(rhs, ast.NewIdent(kv.Name))
	}
	if hasVal {
		lhs = append(lhs, n.Value)
		rhs = append(rhs, ast.NewIdent(vv.Name))
	}
	if len(lhs) > 0 {
		body = append(body, &ast.AssignStmt{Lhs: lhs, Tok: n.Tok, Rhs: rhs})
	}
	body = append(body, n.Body)
	loop := &ast.RangeStmt{
		Key: ast.NewIdent("_"), Value: kv, Tok: token.DEFINE,
		X:    r.call("MapKeys", ast.NewIdent(mv.Name)),
		Body: &ast.BlockStmt{List: body},
	}
	b := &ast.BlockStmt{List: []ast.Stmt{
		&ast.AssignStmt{Lhs: []ast.Expr{mv}, Tok: token.DEFINE, Rhs: []ast.Expr{n.X}},
		loop,
	}}
	r.fixLbl[b] = loop
	return b
}

// applyBuggify inserts cooperative fault statements.
func (r *rewriter) applyBuggify(f *ast.File) {
	for _, site := range r.opts.Buggify {
		if site.Pkg != r.pkg.PkgPath {
			continue
		}
		for _, d := range f.Decls {
			fd, ok := d.(*ast.FuncDecl)
			if !ok || fd.Name.Name != site.Func || fd.Body == nil {
				continue
			}
			recv := ""
			if fd.Recv != nil && len(fd.Recv.List) == 1 {
				t := fd.Recv.List[0].Type
				if s, ok := t.(*ast.StarExpr); ok {
					t = s.X
				}
				if id, ok := t.(*ast.Ident); ok {
					recv = id.Name
				}
			}
			if recv != site.Recv {
				continue
			}
			stmts, err := parseStmts(site.Stmt)
			if err != nil {
				r.errs = append(r.errs, fmt.Sprintf("buggify %s: %v", site.Name, err))
				continue
			}
			fd.Body.List = append(stmts, fd.Body.List...)
			r.needRT = true
			r.st.Buggify++
		}
	}
}

func (r *rewriter) fixImports(f *ast.File) {
	for _, imp := range f.Imports {
		p, _ := strconv.Unquote(imp.Path.Value)
		if sw, ok := importSwap[p]; ok {
			imp.Path = &ast.BasicLit{Kind: token.STRING, Value: strconv.Quote(sw[0])}
			if imp.Name == nil {
				imp.Name = ast.NewIdent(sw[1])
			}
			imp.EndPos = 0
			r.st.Imports++
		}
	}
	if r.needRT {
		addImport(f, rtName, simPrefix+"simrt")
	}
}

func addImport(f *ast.File, name, path string) {
	spec := &ast.ImportSpec{Name: ast.NewIdent(name), Path: &ast.BasicLit{Kind: token.STRING, Value: strconv.Quote(path)}}
	gd := &ast.GenDecl{Tok: token.IMPORT, Specs: []ast.Spec{spec}}
	f.Decls = append([]ast.Decl{gd}, f.Decls...)
	f.Imports = append(f.Imports, spec)
}

// keepHeaderComments drops all comments except those before the package clause (build constraints)
// so that the printer cannot misplace a comment inside rewritten code.
func keepHeaderComments(f *ast.File) {
	var keep []*ast.CommentGroup
	for _, cg := range f.Comments {
		if cg.End() < f.Package {
			keep = append(keep, cg)
		}
	}
	f.Comments = keep
	f.Doc = nil
}

// Instrument rewrites the packages of the scratch module at dir (already containing the overlay).
func Instrument(dir string, env []string, patterns []string, opts *Options, log func(string, ...interface{})) (Stats, error) {
	var total Stats
	cfg := &packages.Config{
		Mode: packages.NeedName | packages.NeedFiles | packages.NeedCompiledGoFiles | packages.NeedImports |
			packages.NeedTypes | packages.NeedSyntax | packages.NeedTypesInfo | packages.NeedModule | packages.NeedDeps,
		Dir:       dir,
		Env:       env,
		ParseFile: nil,
	}
	_ = cfg
	// step 1: find the in-scope package set with a cheap load
	listCfg := &packages.Config{Mode: packages.NeedName | packages.NeedImports | packages.NeedDeps | packages.NeedModule, Dir: dir, Env: env}
	roots, err := packages.Load(listCfg, patterns...)
	if err != nil {
		return total, err
	}
	scope := map[string]bool{}
	packages.Visit(roots, nil, func(p *packages.Package) {
		if len(p.Errors) > 0 {
			for _, e := range p.Errors {
				total.Warnings = append(total.Warnings, fmt.Sprintf("list %s: %v", p.PkgPath, e))
			}
		}
		if opts.InScope(p.PkgPath) && !opts.Exempt(p.PkgPath) {
			scope[p.PkgPath] = true
		}
	})
	var pats []string
	for p := range scope {
		pats = append(pats, p)
	}
	sort.Strings(pats)
	log("simgo: %d packages in scope", len(pats))
	// step 2: full load of exactly those packages (imports come from export data)
	fullCfg := &packages.Config{
		Mode: packages.NeedName | packages.NeedFiles | packages.NeedCompiledGoFiles | packages.NeedImports |
			packages.NeedTypes | packages.NeedSyntax | packages.NeedTypesInfo | packages.NeedModule,
		Dir: dir, Env: env,
	}
	pkgs, err := packages.Load(fullCfg, pats...)
	if err != nil {
		return total, err
	}
	var errs []string
	for _, p := range pkgs {
		for _, e := range p.Errors {
			errs = append(errs, fmt.Sprintf("%s: %v", p.PkgPath, e))
		}
	}
	if len(errs) > 0 {
		return total, fmt.Errorf("type errors before instrumentation:\n%s", strings.Join(errs, "\n"))
	}
	for _, p := range pkgs {
		if !scope[p.PkgPath] {
			continue
		}
		for i, f := range p.Syntax {
			fn := p.CompiledGoFiles[i]
			if !strings.HasSuffix(fn, ".go") || !strings.HasPrefix(fn, dir) {
				continue // cgo-generated or outside the scratch tree
			}
			rel, _ := filepath.Rel(dir, fn)
			r := &rewriter{pkg: p, fset: p.Fset, info: p.TypesInfo, opts: opts, skip: map[ast.Node]bool{}, fixLbl: map[*ast.BlockStmt]ast.Stmt{}, relFile: rel}
			r.rewriteFile(f)
			r.applyBuggify(f)
			r.fixImports(f)
			keepHeaderComments(f)
			if len(r.errs) > 0 {
				errs = append(errs, r.errs...)
				continue
			}
			var buf bytes.Buffer
			if err := format.Node(&buf, p.Fset, f); err != nil {
				errs = append(errs, fmt.Sprintf("%s: print: %v", fn, err))
				continue
			}
			if err := os.WriteFile(fn, buf.Bytes(), 0644); err != nil {
				return total, err
			}
			r.st.Files++
			total.Add(r.st)
		}
	}
	if len(errs) > 0 {
		return total, fmt.Errorf("rewriter refused:\n%s", strings.Join(errs, "\n"))
	}
	return total, nil
}

var _ = constant.MakeBool
