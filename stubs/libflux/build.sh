#!/bin/sh
# Builds the libflux C stub into /verif/build/libflux/{lib,pc}
set -e
here=$(cd "$(dirname "$0")" && pwd)
out=${1:-$here/../../build/libflux}
mkdir -p "$out/lib" "$out/pc" "$out/include/influxdata"
out=$(cd "$out" && pwd)
cp "$here/include/influxdata/flux.h" "$out/include/influxdata/flux.h"
gcc -O1 -fPIC -c -I"$here/include" -o "$out/lib/flux_stub.o" "$here/flux_stub.c"
rm -f "$out/lib/libflux.a"
ar rcs "$out/lib/libflux.a" "$out/lib/flux_stub.o"
cat > "$out/pc/flux.pc" <<PC
prefix=$out
libdir=\${prefix}/lib
includedir=\${prefix}/include

Name: flux
Description: libflux stub (verification only)
Version: 0.191.0
Libs: -L\${libdir} -lflux
Cflags: -I\${includedir}
PC
echo "libflux stub built in $out"
