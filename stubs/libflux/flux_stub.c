/* Stub of libflux for offline builds of kapacitor (see DESIGN.md 2.2).
 * Every Flux operation aborts the process with a message: no check may silently
 * depend on stubbed Flux behaviour. Only the two init-time calls return data. */
#include <stdio.h>
#include <stdlib.h>
#include <string.h>
#include <unistd.h>
#include "influxdata/flux.h"

struct flux_error_t { const char *msg; };

static void die(const char *fn) {
	fprintf(stderr, "libflux stub called: %s\n", fn);
	fflush(stderr);
	_exit(2);
}


/* minimal valid flatbuffer: root table with empty vtable */
static const unsigned char empty_fb[12] = {8,0,0,0, 4,0,4,0, 4,0,0,0};

static void fill_empty(struct flux_buffer_t *b) {
	b->data = malloc(sizeof(empty_fb));
	memcpy(b->data, empty_fb, sizeof(empty_fb));
	b->len = sizeof(empty_fb);
}

void flux_semantic_packages(struct flux_buffer_t *b) { fill_empty(b); }
void flux_get_env_stdlib(struct flux_buffer_t *b) { fill_empty(b); }
void flux_free_bytes(const char *p) { free((void *)p); }
void flux_free_error(struct flux_error_t *e) { (void)e; }
const char *flux_error_str(struct flux_error_t *e) { return e ? e->msg : ""; }
void flux_error_print(struct flux_error_t *e) { if (e) fprintf(stderr, "%s\n", e->msg); }

struct flux_ast_pkg_t *flux_parse(const char *f, const char *s) { (void)f; (void)s; die("flux_parse"); return 0; }
struct flux_error_t *flux_ast_format(struct flux_ast_pkg_t *p, struct flux_buffer_t *b) { (void)p; (void)b; die("flux_ast_format"); return 0; }
struct flux_error_t *flux_ast_get_error(struct flux_ast_pkg_t *p, const char *o) { (void)p; (void)o; die("flux_ast_get_error"); return 0; }
void flux_free_ast_pkg(struct flux_ast_pkg_t *p) { (void)p; }
struct flux_error_t *flux_merge_ast_pkgs(struct flux_ast_pkg_t *a, struct flux_ast_pkg_t *b) { (void)a; (void)b; die("flux_merge_ast_pkgs"); return 0; }
struct flux_error_t *flux_parse_json(const char *s, struct flux_ast_pkg_t **p) { (void)s; (void)p; die("flux_parse_json"); return 0; }
struct flux_error_t *flux_ast_marshal_json(struct flux_ast_pkg_t *p, struct flux_buffer_t *b) { (void)p; (void)b; die("flux_ast_marshal_json"); return 0; }
struct flux_stateful_analyzer_t *flux_new_stateful_analyzer(const char *o) { (void)o; die("flux_new_stateful_analyzer"); return 0; }
void flux_free_stateful_analyzer(struct flux_stateful_analyzer_t *a) { (void)a; }
struct flux_error_t *flux_analyze_with(struct flux_stateful_analyzer_t *a, const char *s, struct flux_ast_pkg_t *p, struct flux_semantic_pkg_t **o) { (void)a; (void)s; (void)p; (void)o; die("flux_analyze_with"); return 0; }
struct flux_error_t *flux_analyze(struct flux_ast_pkg_t *p, const char *o, struct flux_semantic_pkg_t **s) { (void)p; (void)o; (void)s; die("flux_analyze"); return 0; }
struct flux_error_t *flux_find_var_type(struct flux_semantic_pkg_t *p, const char *v, struct flux_buffer_t *b) { (void)p; (void)v; (void)b; die("flux_find_var_type"); return 0; }
void flux_free_semantic_pkg(struct flux_semantic_pkg_t *p) { (void)p; }
struct flux_error_t *flux_semantic_marshal_fb(struct flux_semantic_pkg_t *p, struct flux_buffer_t *b) { (void)p; (void)b; die("flux_semantic_marshal_fb"); return 0; }
