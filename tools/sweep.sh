#!/bin/bash
# dev aid: sweep.sh <PROP> <runs-per-seed> [worker flags...]  — 16 seeds in parallel on /var/tmp/ks1 (env KS), summary by class
# env: SEED0 first seed, DETAIL chars of detail, KS instrumented dir, SW output dir prefix
. /verif/env.sh
P=$1; N=$2; shift 2
KS=${KS:-/var/tmp/ks1}; SW=${SW:-/var/tmp}
rm -rf $SW/f; mkdir -p $SW/f $SW/sw; rm -f $SW/sw/*.out
for s in $(seq ${SEED0:-1} $(( ${SEED0:-1} + ${NSEEDS:-16} - 1 ))); do
  $KS/worker.bin run -prop $P -seed $s -n $N -maxfail 1000 -outdir $SW/f "$@" > $SW/sw/$s.out 2>&1 &
done
wait
cat $SW/sw/*.out | python3 /verif/tools/survey3.py ${DETAIL:-1600}
