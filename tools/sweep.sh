#!/bin/bash
# dev aid: sweep.sh <PROP> <runs-per-seed> [worker flags...]  — 16 seeds in parallel on /var/tmp/ks1, summary by class
. /verif/env.sh
P=$1; N=$2; shift 2
rm -rf /var/tmp/f; mkdir -p /var/tmp/f /var/tmp/sw; rm -f /var/tmp/sw/*.out
for s in $(seq ${SEED0:-1} $(( ${SEED0:-1} + 15 ))); do
  /var/tmp/ks1/worker.bin run -prop $P -seed $s -n $N -maxfail 1000 -outdir /var/tmp/f "$@" > /var/tmp/sw/$s.out 2>&1 &
done
wait
cat /var/tmp/sw/*.out | python3 /verif/tools/survey3.py ${DETAIL:-1600}
