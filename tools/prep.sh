#!/bin/bash
# dev aid: instrument /repo into /var/tmp/ks1 with the right environment
. /verif/env.sh
/verif/bin/kapsim prepare -dir /var/tmp/ks1 "$@" 2>&1 | grep -v "^simgo\|^stats\|^worker"
