import sys,json,collections
c=collections.Counter()
ex={}
for l in sys.stdin:
    try: j=json.loads(l)
    except Exception: print(l[:300]); continue
    if 'ok' not in j: continue
    k=(j.get('class',''), json.dumps(j.get('shape'),sort_keys=True))
    c[k]+=1
    ex.setdefault(k,(j.get('detail','')[:int(sys.argv[1]) if len(sys.argv)>1 else 500], j.get('replay')))
for k,v in c.most_common(): print(v,k); print('    ',ex[k])
