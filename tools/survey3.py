#!/usr/bin/env python3
"""Summarise worker JSON lines by class, showing one example detail per class. argv[1] = max detail chars; env SKIP = regex of classes whose detail is not shown."""
import sys, json, collections, os, re
c = collections.Counter(); ex = {}
n = int(sys.argv[1]) if len(sys.argv) > 1 else 1500
skip = os.environ.get('SKIP')
for l in sys.stdin:
    try: r = json.loads(l)
    except Exception: continue
    k = (r.get('class', ''), json.dumps(r.get('shape'), sort_keys=True))
    if r.get('known'): k = ('KNOWN:' + k[0], k[1])
    c[k] += 1
    if k[0] and k not in ex: ex[k] = (r.get('detail', '')[:n], r.get('replay'))
for k, v in c.most_common(): print(v, k)
for k, v in ex.items():
    if skip and re.search(skip, k[0]): continue
    print('==', k, v[1]); print(v[0])
