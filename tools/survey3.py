#!/usr/bin/env python3
"""Summarise worker JSON lines by class, showing one example detail per class."""
import sys, json, collections
c = collections.Counter(); ex = {}
n = int(sys.argv[1]) if len(sys.argv) > 1 else 1500
for l in sys.stdin:
    try: r = json.loads(l)
    except Exception: continue
    k = (r.get('class', ''), json.dumps(r.get('shape'), sort_keys=True))
    c[k] += 1
    if k[0] and k not in ex: ex[k] = (r.get('detail', '')[:n], r.get('replay'))
for k, v in c.most_common(): print(v, k)
for k, v in ex.items():
    print('==', k, v[1]); print(v[0])
