#!/bin/bash
# dev aid: trymut.sh <seeded-dir> <PROP> <runs-per-seed> [worker flags]: instrument a worktree with the change applied, sweep 16 seeds
. /verif/env.sh
d=$(cd $1 && pwd); P=$2; N=$3; shift 3
wt=/tmp/seedwt/try-$$; rm -rf $wt /var/tmp/ksm-$$
git -C /repo worktree prune; git -C /repo worktree add --detach $wt HEAD >/dev/null 2>&1
git -C $wt apply $d/patch.diff || { echo apply failed; git -C /repo worktree remove --force $wt; exit 2; }
/verif/bin/kapsim prepare -repo $wt -dir /var/tmp/ksm-$$ 2>&1 | grep -v "^simgo\|^stats\|^worker"
rm -rf /var/tmp/fm; mkdir -p /var/tmp/fm /var/tmp/swm; rm -f /var/tmp/swm/*.out
for s in $(seq 1 16); do
  /var/tmp/ksm-$$/worker.bin run -prop $P -seed $s -n $N -maxfail 1000 -outdir /var/tmp/fm -known /verif/known_findings.json "$@" > /var/tmp/swm/$s.out 2>&1 &
done
wait
cat /var/tmp/swm/*.out | SKIP="${SKIP:-blocked-forever|KNOWN}" python3 /verif/tools/survey3.py ${DETAIL:-600} | head -${LINES_MAX:-40}
git -C /repo worktree remove --force $wt; rm -rf /var/tmp/ksm-$$
