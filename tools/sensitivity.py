#!/usr/bin/env python3
"""Regenerates /verif/sensitivity.md from /verif/seeded/*/{meta.json,result-*.json}."""
import json, glob, os
rows=[]
for d in sorted(glob.glob('/verif/seeded/*/')):
    name=os.path.basename(d.rstrip('/'))
    try: m=json.load(open(d+'meta.json'))
    except Exception: continue
    res=[json.load(open(f)) for f in sorted(glob.glob(d+'result-*.json'))]
    rows.append((name,m,res))
out=["# Sensitivity: seeded property-breaking changes and what the checks made of them","",
"Every change below was produced by a fresh sub-agent that saw only the text of one property and a scratch worktree",
"of /repo (nothing from /verif); it compiles, passes the pinned 147-test suite, and comes with the agent's own",
"demonstration (`seeded/<name>/demonstration/`). `tools/seeded.sh seeded/<name>` applies `patch.diff` to a scratch",
"worktree of /repo's HEAD and runs the registered check against it (same as `git -C /repo apply`, `./bin/check <id> quick`,",
"`git -C /repo checkout -- .`). detected = the check exited 1 with a VIOLATION line.","",
"| change | property | kind | what was changed | check / tier | detected | class reported | time |","|---|---|---|---|---|---|---|---|"]
n=det=0
for name,m,res in rows:
    if not res:
        out.append("| %s | %s | %s | %s | - | not run | | |"%(name,m.get('property'),m.get('kind',''),m.get('title','').replace('|','/'))); continue
    for r in res:
        cls=(r['classes'][0] if r['classes'] else '').replace('|','/')[:80]
        out.append("| %s | %s | %s | %s | %s %s | %s | %s | %ss |"%(name,m.get('property'),m.get('kind','').replace('|','/')[:30],m.get('title','').replace('|','/')[:110],r['check'],r['tier'],'**yes**' if r['detected'] else ('no (exit %d)'%r['exit']),cls,r['elapsed_s']))
    n+=1; det+= any(r['detected'] for r in res)
out+=["","%d changes, %d detected by at least one registered check."%(n,det),""]
notes='/verif/seeded/NOTES.md'
if os.path.exists(notes): out+=[open(notes).read()]
open('/verif/sensitivity.md','w').write('\n'.join(out)+'\n')
print("%d changes, %d detected"%(n,det))
