#!/usr/bin/env python3
"""Generates /verif/MANIFEST.json from the table below (kept in one place so it stays valid)."""
import json, os, sys
here = os.path.dirname(os.path.dirname(os.path.abspath(__file__)))

# id -> (technique, level text, level note, design ref)
CLAIMED = {}
def claim(pid, technique, text, note, ref):
    CLAIMED[pid] = (technique, text, note, ref)

exec(open(os.path.join(here, "tools", "claims.py")).read())

NA = {
 "C04": "pure, single-goroutine function of (expression, scope sequence): no schedule, clock, I/O or fault for a simulator to control; deciding it is input generation (property-based testing), not deterministic simulation (DESIGN.md 8)",
 "C13": "format/re-serialise round trips are pure functions over program text; no concurrency, time, I/O or multi-party behaviour on that path (DESIGN.md 8)",
 "C20": "the authorisation decision is a total function of (method, path, grant table, database name); nothing in it depends on a schedule, clock or fault (DESIGN.md 8)",
}
PENDING_REASON = "check not built yet (work in progress in this round; see DESIGN.md 13 for the build order)"

props = [json.loads(l)["id"] for l in open(os.path.join(here, "properties.jsonl"))]
checks = []
na = []
for pid in props:
    if pid in CLAIMED:
        tech, text, note, ref = CLAIMED[pid]
        checks.append({
            "property_id": pid,
            "quick_cmd": "./bin/check %s quick" % pid,
            "thorough_cmd": "./bin/check %s thorough" % pid,
            "evidence_file": "/verif/evidence/%s.json" % pid,
            "replay_cmd_template": "./bin/check replay {path}",
            "engine": "kapsim",
            "level_claimed": {"category": "exploration", "text": text, "design_ref": ref},
            "level_note": note,
            "technique": tech,
        })
    else:
        na.append({"property_id": pid, "reason": NA.get(pid, PENDING_REASON)})

m = {
 "version": 1,
 "setup_cmd": "./setup.sh",
 "hooks": {
  "guard": "verif",
  "enable": "none needed: the seam is put in mechanically by the simgo rewriter on a scratch copy of /repo's working tree at check time (DESIGN.md 3.1); /repo carries no hook commits. The build tag 'verif' is reserved should a guarded hook become unavoidable.",
  "baseline_off_cmd": "cd /repo && go test -mod=mod -json -vet=off -count=1 -timeout 25m ./...",
  "source_commits": [],
  "add_only": True,
 },
 "engines": [{
  "name": "kapsim",
  "path": "/verif/kapsim",
  "serves_properties": sorted(CLAIMED),
  "kind_free_text": "deterministic simulation with fault injection: go/ast+go/types rewriter (simgo) instruments a scratch copy of /repo (sync/time/context/math-rand import swap; go, channel, select, range-over-map rewriting), cooperative seeded scheduler with virtual clock and choice tape (simrt), real bbolt behind a crash/fault-injecting storage wrapper, fake InfluxDB/handlers/pipes on existing interfaces, tape-based replay and delta-debugging minimiser",
 }],
 "checks": checks,
 "not_applicable": na,
 "notes": "exit codes: 0 held (KNOWN-FINDING lines allowed), 1 VIOLATION, 2 machinery failure (build, rewriter refusal, watchdog, non-reproducible failure, determinism self-test). Env: VERIF_SEED, VERIF_TIER, VERIF_JOBS (default 16), VERIF_SCRATCH (default /var/tmp).",
}
json.dump(m, open(os.path.join(here, "MANIFEST.json"), "w"), indent=1)
print("MANIFEST.json: %d checks, %d not claimed" % (len(checks), len(na)))
