#!/usr/bin/env python3
"""Writes /tmp/mut/<ID>.prompt.md for a mutation sub-agent: the property's text plus working instructions, nothing from /verif."""
import json, sys
ids = sys.argv[1:]
COMMON = open('/verif/tools/mutation_prompt.md').read()
for l in open('/verif/properties.jsonl'):
    r = json.loads(l)
    if r['id'] not in ids: continue
    a = r['anchors']
    prop = {"id": r['id'], "title": r['title'], "statement": r['statement'], "quantifier": r['quantifier']['text'],
            "why_unit_tests_do_not_settle_it": r['why_tests_cant'],
            "anchor_files": a['files'], "state": a.get('state', []), "mechanism": a.get('mechanism', []), "observe_at": a.get('observe_at', [])}
    open('/tmp/mut/%s.prompt.md' % r['id'], 'w').write(COMMON.replace('@ID@', r['id']).replace('@PROPERTY@', json.dumps(prop, indent=1)))
    print('/tmp/mut/%s.prompt.md' % r['id'])
