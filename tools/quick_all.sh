#!/bin/bash
# dev aid: quick tier of every claimed property in sequence; summary in /var/tmp/quick/summary.txt
cd /verif; mkdir -p /var/tmp/quick; : > /var/tmp/quick/summary.txt
for id in ${PROPS:-C01 C02 C03 C05 C06 C07 C08 C09 C10 C11 C12 C14 C15 C16 C17 C18 C19}; do
  s=$(date +%s)
  ./bin/check $id quick > /var/tmp/quick/$id.log 2>&1
  echo "$id exit=$? $(( $(date +%s) - s ))s $(grep -c '^KNOWN-FINDING' /var/tmp/quick/$id.log) known $(grep -m1 '^VIOLATION' /var/tmp/quick/$id.log)" >> /var/tmp/quick/summary.txt
done
