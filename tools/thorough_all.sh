#!/bin/bash
# dev aid: run the thorough tier of every claimed property in sequence, from wherever this copy of /verif lives
# (so that it can run from a committed snapshot: vp run -- tools/thorough_all.sh); logs in /var/tmp/thorough/
here=$(cd "$(dirname "$0")/.." && pwd); cd $here
mkdir -p /var/tmp/thorough /var/tmp/thorough/evidence
for id in ${PROPS:-C02 C07 C09 C12 C17 C15 C08 C14 C16 C19 C18 C05 C01 C03 C11 C10 C06}; do
  s=$(date +%s)
  ./bin/check $id thorough > /var/tmp/thorough/$id.${VERIF_SEED:-default}.log 2>&1
  echo "$id exit=$? $(( $(date +%s) - s ))s $(grep -c '^KNOWN-FINDING' /var/tmp/thorough/$id.${VERIF_SEED:-default}.log) known $(grep -m1 '^VIOLATION' /var/tmp/thorough/$id.${VERIF_SEED:-default}.log)" >> /var/tmp/thorough/summary.${VERIF_SEED:-default}.txt
  cp evidence/$id.json /var/tmp/thorough/evidence/$id.json 2>/dev/null
done
