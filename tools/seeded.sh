#!/bin/bash
# tools/seeded.sh <seeded-dir>... : run the quick tier of each seeded change's property against a scratch
# worktree of /repo with the change applied, and record the outcome in <seeded-dir>/result-<check>-<tier>.json.
# Evidence/replays of these runs go to /var/tmp/seeded/<name>/, never to /verif/evidence.
# Equivalent to `git -C /repo apply patch.diff; ./bin/check <id> quick; git -C /repo checkout -- .` but can
# run several changes side by side. SEEDED_TIER=thorough for the thorough tier; SEEDED_CHECK=<id> to run
# another property's check against the change; SEEDED_JOBS workers (default 8).
. /verif/env.sh
mkdir -p /var/tmp/seeded
for d in "$@"; do
  d=$(cd $d && pwd); name=$(basename $d)
  prop=${SEEDED_CHECK:-$(python3 -c "import json,sys;print(json.load(open('$d/meta.json'))['property'])")}
  tier=${SEEDED_TIER:-quick}
  wt=/tmp/seedwt/$name-$$
  rm -rf $wt; git -C /repo worktree prune; git -C /repo worktree add --detach $wt HEAD >/dev/null 2>&1 || { echo "$name worktree failed"; continue; }
  if ! git -C $wt apply $d/patch.diff 2>/var/tmp/seeded/$name.apply.err; then
    echo -e "$name\t$prop\tAPPLY-FAILED"; git -C /repo worktree remove --force $wt; continue
  fi
  out=/var/tmp/seeded/$name-$prop; rm -rf $out; mkdir -p $out
  start=$(date +%s)
  VERIF_REPO=$wt VERIF_OUT=$out VERIF_SCRATCH=/var/tmp/seeded/scr-$name-$$ VERIF_JOBS=${SEEDED_JOBS:-8} /verif/bin/check $prop $tier > $out/log.txt 2>&1
  rc=$?
  el=$(( $(date +%s) - start ))
  python3 - "$d" "$prop" "$tier" "$rc" "$el" "$out/log.txt" "$(git -C /repo rev-parse --short HEAD)" <<'PY'
import json,sys,re
d,prop,tier,rc,el,log,head=sys.argv[1:]
txt=open(log).read()
viol=[l for l in txt.splitlines() if l.startswith('VIOLATION')]
cls=[l.strip() for l in txt.splitlines() if l.strip().startswith('class=')]
summ=[l for l in txt.splitlines() if l.startswith('kapsim: %s %s:'%(prop,tier))]
first=''
if viol:
    i=txt.splitlines().index(viol[0]); first='\n'.join(txt.splitlines()[i+1:i+6])[:1200]
res={"check":prop,"tier":tier,"repo_head":head,"exit":int(rc),"detected":int(rc)==1,"elapsed_s":int(el),"violations":viol[:3],"classes":cls[:3],"first_violation":first,"summary":summ[-1] if summ else ''}
json.dump(res,open('%s/result-%s-%s.json'%(d,prop,tier),'w'),indent=1)
print('%s\t%s\t%s\texit=%s\t%ss\t%s'%(d.split('/')[-1],prop,tier,rc,el,(cls[0] if cls else '')[:90]))
PY
  git -C /repo worktree remove --force $wt; rm -rf /var/tmp/seeded/scr-$name-$$
  # every change instruments a different tree: keep the build cache from filling the disk
  if [ "$(du -sm ${GOCACHE:-$HOME/.cache/go-build} 2>/dev/null | cut -f1)" -gt 30000 ]; then
    find ${GOCACHE:-$HOME/.cache/go-build} -type f -mmin +90 -delete 2>/dev/null
  fi
done
