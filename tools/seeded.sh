#!/bin/bash
# tools/seeded.sh <seeded-dir>... : run the quick tier of each seeded change's property against a scratch
# worktree of /repo with the change applied. Prints one result line per change and appends it to
# /var/tmp/seeded/results.tsv. Evidence/replays of these runs go to /var/tmp/seeded/<name>/, never to /verif.
# Equivalent to `git -C /repo apply patch.diff; ./bin/check <id> quick; git -C /repo checkout -- .` but can
# run several changes side by side. SEEDED_TIER=thorough for the thorough tier; SEEDED_CHECK=<id> to run
# another property's check against the change.
. /verif/env.sh
mkdir -p /var/tmp/seeded
for d in "$@"; do
  d=${d%/}; name=$(basename $d)
  prop=${SEEDED_CHECK:-$(python3 -c "import json,sys;print(json.load(open('$d/meta.json'))['property'])")}
  wt=/tmp/seedwt/$name-$$
  rm -rf $wt; git -C /repo worktree prune; git -C /repo worktree add --detach $wt HEAD >/dev/null 2>&1 || { echo "$name worktree failed"; continue; }
  if ! git -C $wt apply $d/patch.diff 2>/var/tmp/seeded/$name.apply.err; then
    echo -e "$name\t$prop\tAPPLY-FAILED"; git -C /repo worktree remove --force $wt; continue
  fi
  out=/var/tmp/seeded/$name-$prop; rm -rf $out; mkdir -p $out
  start=$(date +%s)
  VERIF_REPO=$wt VERIF_OUT=$out VERIF_SCRATCH=/var/tmp/seeded/scr-$name-$$ VERIF_JOBS=${SEEDED_JOBS:-8} /verif/bin/check $prop ${SEEDED_TIER:-quick} > $out/log.txt 2>&1
  rc=$?
  el=$(( $(date +%s) - start ))
  viol=$(grep -m1 '^VIOLATION' $out/log.txt)
  cls=$(grep -m1 'class=' $out/log.txt | grep -v KNOWN | sed 's/^ *//' | cut -c1-100)
  echo -e "$name\t$prop\texit=$rc\t${el}s\t$cls" | tee -a /var/tmp/seeded/results.tsv
  git -C /repo worktree remove --force $wt; rm -rf /var/tmp/seeded/scr-$name-$$
done
