import sys,json,collections
c=collections.Counter(); ex={}
for l in sys.stdin:
    try: j=json.loads(l)
    except Exception: continue
    if 'ok' not in j: continue
    k=(j.get('class',''), json.dumps(j.get('shape'),sort_keys=True)[:150])
    c[k]+=1; ex.setdefault(k,j.get('replay'))
for k,v in c.most_common(int(sys.argv[1]) if len(sys.argv)>1 else 15): print(v,k,ex[k])
