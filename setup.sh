#!/bin/sh
# MANIFEST.setup_cmd: build the libflux stub and the kapsim tool from files on disk (offline).
set -e
here=$(cd "$(dirname "$0")" && pwd)
VERIF_ROOT=$here
"$here/stubs/libflux/build.sh" "$here/build/libflux"
. "$here/env.sh"
cd "$here/kapsim"
cp /repo/go.sum go.sum 2>/dev/null || true
"$GO" build -o "$here/bin/kapsim" ./cmd/kapsim
echo "kapsim built with $("$GO" version)"
