# Sourced by every check: toolchain + offline env (DESIGN.md 2.1)
VERIF_ROOT=${VERIF_ROOT:-/verif}
GOMODCACHE_DIR=$(/usr/bin/env go env GOMODCACHE 2>/dev/null || echo /root/go/pkg/mod)
if [ -x "$GOMODCACHE_DIR/golang.org/toolchain@v0.0.1-go1.25.7.linux-amd64/bin/go" ]; then
  GO="$GOMODCACHE_DIR/golang.org/toolchain@v0.0.1-go1.25.7.linux-amd64/bin/go"
elif [ -x /opt/veriftools/go1.26.8/bin/go ]; then
  GO=/opt/veriftools/go1.26.8/bin/go
else
  echo "no usable go toolchain" >&2; exit 2
fi
export GO
export GOTOOLCHAIN=local GOFLAGS=-mod=mod GOPROXY=off GOSUMDB=off
export PKG_CONFIG_PATH=$VERIF_ROOT/build/libflux/pc
export CGO_ENABLED=1
export PATH="$(dirname "$GO"):$PATH"
# a stale build-cache entry of the libflux cgo package may carry another -L path; this keeps -lflux resolvable
export CGO_LDFLAGS="-L$VERIF_ROOT/build/libflux/lib"
export CGO_CFLAGS="-I$VERIF_ROOT/build/libflux/include"
